from smpl_extract.akai.sat import SegmentAllocationTableAdapter
from smpl_extract.util.fat import InvalidFatDefinition, RequestedInvalidSector
from construct.core import Pass
FREE, EOF, RES, RES2 = 0x0000, 0xC000, 0x4000, 0x8000
N = 5
VALS = [FREE, EOF, RES, RES2, 1, 2, 3, 4, 9]      # 0 is FREE so link-to-0 is not expressible (as on disk)
class Fuel(Exception): pass
class CountingList(list):
    def __init__(self, it, fuel):
        super().__init__(it); self.fuel = fuel
    def __getitem__(self, i):
        self.fuel -= 1
        if self.fuel < 0: raise Fuel()
        return list.__getitem__(self, i)
def ref_chain(block, start, n):
    path, cur = [], start
    for _ in range(n + 1):
        if cur < 0 or cur >= n or cur in path: return None
        v = block[cur]
        if v in (FREE, RES, RES2): return None
        path.append(cur)
        if v == EOF: return path
        cur = v
    return None
def akai_chain(e0: int, e1: int, e2: int, e3: int, e4: int, start: int) -> int:
    """
    pre: 0 <= e0 < 9 and 0 <= e1 < 9 and 0 <= e2 < 9 and 0 <= e3 < 9 and 0 <= e4 < 9
    pre: 0 <= start < 5
    post: _ >= 1
    """
    block = [VALS[e0], VALS[e1], VALS[e2], VALS[e3], VALS[e4]]
    try:
        sat = SegmentAllocationTableAdapter(None, Pass)._decode(CountingList(block, 300), {}, "")
        sat.sector_links = CountingList(sat.sector_links, 50)
        try:
            got = sat.get_path(start)
        except (InvalidFatDefinition, RequestedInvalidSector):
            got = None
    except Fuel:
        return 0
    exp = ref_chain(block, start, N)
    if exp is None: return 1
    for s in exp:
        cnt = sum(1 for j in range(N) if block[j] == s)
        if (s == start and cnt != 0) or (s != start and cnt != 1): return 1
    return 2 if got == exp else -1
