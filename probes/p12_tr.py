"""Probe: real PipelineTranscoder over abstract streams with an index-map numpy shim (symbolic lengths)."""
import numpy as real_np
import smpl_extract.transcoder as T
from smpl_extract.data_streams import DataStream, StreamEncoding, Endianess


class ABytes:
    """abstract byte string: length + map k -> (stream id, byte offset) ; src<0 = zero padding"""
    def __init__(self, n, at):
        self.n, self.at = n, at
    def __len__(self):
        return self.n
    def __getitem__(self, sl):
        assert isinstance(sl, slice) and sl.start is None and sl.step is None
        m = sl.stop if sl.stop < self.n else self.n
        return ABytes(m, self.at)


class AStream:
    def __init__(self, sid, size):
        self.sid, self.size, self.pos = sid, size, 0
    def read(self, n):
        avail = self.size - self.pos
        if n > avail:
            n = avail
        p0, sid = self.pos, self.sid
        self.pos = self.pos + n
        return ABytes(n, lambda k: (sid, p0 + k, False))


class AArr:
    """abstract 1-D sample array: length (samples), width, at(i, b) -> (sid, byte offset, swapped?)"""
    def __init__(self, n, w, at):
        self.n, self.w, self.at = n, w, at
    def __len__(self):
        return self.n
    def byteswap(self):
        w, at = self.w, self.at
        return AArr(self.n, w, lambda i, b: at(i, w - 1 - b))
    def astype(self, dt):
        assert real_np.dtype(dt).itemsize == self.w
        return self


class A2D:
    def __init__(self, rows):
        self.rows = rows
    def reshape(self, shape, order="C"):
        assert order == "F" and shape == (-1,)
        rows = self.rows
        C = len(rows)
        n = rows[0].n
        w = rows[0].w
        return AOut(n * C * w, lambda k: rows[(k // w) % C].at(k // (w * C), k % w))
    @property
    def T(self):
        return self


class AOut:
    def __init__(self, n, at):
        self.n, self.at = n, at
    def tobytes(self):
        return ABytes(self.n, self.at)


class ADeint:
    """result of frombuffer(...).reshape((-1,C)).T : iterable of C channel arrays"""
    def __init__(self, chans):
        self.chans = chans
    @property
    def T(self):
        return self
    def __iter__(self):
        return iter(self.chans)


class AFlat(AArr):
    def reshape(self, shape):
        C = shape[1]
        n, w, at = self.n, self.w, self.at
        return ADeint([AArr(n // C, w, (lambda c: (lambda i, b: at(i * C + c, b)))(c)) for c in range(C)])


class NpShim:
    dtype = real_np.dtype
    ndarray = real_np.ndarray
    @staticmethod
    def frombuffer(buf, dtype):
        w = real_np.dtype(dtype).itemsize
        at = buf.at
        return AFlat(len(buf) // w, w, lambda i, b: at(i * w + b))
    @staticmethod
    def zeros(n, dtype):
        return AArr(0, real_np.dtype(dtype).itemsize, lambda i, b: (-1, 0, False))
    @staticmethod
    def pad(ch, widths, mode, end_values=None):
        n0, at = ch.n, ch.at
        return AArr(n0 + widths[1], ch.w, lambda i, b: at(i, b) if i < n0 else (-1, 0, False))
    @staticmethod
    def vstack(chs):
        return A2D(list(chs))


T.np = NpShim


def two_mono(l0: int, l1: int, k: int) -> int:
    """
    pre: 0 <= l0 <= 10000 and 0 <= l1 <= 10000
    pre: 0 <= k
    post: _ == 1
    """
    W = 2
    enc = StreamEncoding(endianess=Endianess.LITTLE, sample_width=W, num_interleaved_channels=1)
    dst = StreamEncoding(endianess=Endianess.LITTLE, sample_width=W, num_interleaved_channels=2)
    streams = [DataStream(AStream(0, l0), enc), DataStream(AStream(1, l1), enc)]
    tr = T.make_transcoder(streams, dst)
    total = 0
    blocks = []
    for blk in tr:
        blocks.append((total, blk))
        total = total + len(blk)
        if len(blocks) > 8:
            return 0
    f0, f1 = l0 // W, l1 // W
    lo, hi = min(f0, f1), max(f0, f1)
    frames = total // (2 * W)
    if total % (2 * W) != 0:
        return 0
    if not (lo <= frames <= hi):
        return 0
    if f0 == f1 and frames != f0:
        return 0
    if k < lo * 2 * W:
        for (base, blk) in blocks:
            if base <= k < base + len(blk):
                sid, off = blk.at(k - base)[:2]
                fr, c, b = k // (2 * W), (k // W) % 2, k % W
                if sid != c or off != fr * W + b:
                    return 0
    return 1
