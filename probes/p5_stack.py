"""Probe: the real AKAI stream stack + real PassthroughTranscoder over an abstract file."""
from io import SEEK_SET
from absfile import AbsFile, Spans
from smpl_extract.util.stream import StreamOffset, StreamWrapper
from smpl_extract.akai.sat import Segment
from smpl_extract.data_streams import DataStream, StreamEncoding, Endianess
from smpl_extract.transcoder import make_transcoder

L = 8192
HDR = 140


def akai_pcm(P: int, s0: int, s1: int, fsize: int, start: int, end: int, k: int) -> int:
    """
    pre: 0 <= P <= 10 and 1 <= s0 < 40 and 1 <= s1 < 40 and s0 != s1
    pre: HDR <= fsize <= 2 * L
    pre: 0 <= start < end and HDR + 2 * end <= fsize
    pre: fsize < 2 * L and fsize != L
    pre: 0 <= k
    post: _ == 1
    """
    f = AbsFile((P + 40) * L)
    part = StreamOffset(f, 40 * L, P * L)
    nsec = 1 if fsize <= L else 2
    sl = [s0, s1][:nsec]
    seg = Segment(part, sl)
    fstream = StreamWrapper(seg, fsize)
    data = StreamOffset(fstream, 2 * (end - start), HDR + 2 * start)
    enc = StreamEncoding(endianess=Endianess.LITTLE, sample_width=2, num_interleaved_channels=1)
    tr = make_transcoder([DataStream(stream=data, encoding=enc)], enc)
    out = Spans()
    n = 0
    for blk in tr:
        out += blk
        n += 1
        if n > 6:
            return 0
    want = 2 * (end - start)
    if len(out) != want:
        return 0
    if k < want:
        i = HDR + 2 * start + k
        if out.addr(k) != P * L + sl[i // L] * L + i % L:
            return 0
    return 1
