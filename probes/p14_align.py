"""Probe: real FileEntriesAdapter._parse with a nondeterministic entry sub-parser (C14 alignment)."""
from io import SEEK_SET, SEEK_CUR, SEEK_END
from types import SimpleNamespace
from construct.core import ConstructError, StreamError, Construct
from construct.lib.containers import Container
import smpl_extract.akai.file_entry as fe
from absfile import AbsFile

ENTRY = 24


class Table:
    """abstract table stream: only position matters"""
    def __init__(self, n):
        self.size = n * ENTRY
        self.pos = 0
    def tell(self):
        return self.pos
    def seek(self, off, whence=SEEK_SET):
        if whence == SEEK_SET:
            p = off
        elif whence == SEEK_CUR:
            p = self.pos + off
        else:
            p = self.size + off
        self.pos = p
        return p
    def read(self, n):
        raise AssertionError("table bytes are only read through the stubs")


class StubInt16:
    """end-flag probe: reads 2 bytes at the current position; never reports the end flag"""
    @staticmethod
    def parse_stream(stream, **kw):
        if stream.pos + 2 > stream.size:
            raise StreamError("eof")
        stream.pos = stream.pos + 2
        return 0


class StubEntry(Construct):
    def __init__(self, bad, consumed, log):
        super().__init__()
        self.bad, self.consumed, self.log = bad, consumed, log
    def _sizeof(self, context, path):
        return ENTRY
    def _parse(self, stream, context, path):
        at = stream.tell()
        self.log.append(at)
        idx = len(self.log) - 1
        if idx == self.bad:
            stream.seek(self.consumed, SEEK_CUR)
            raise ConstructError("damaged entry")
        stream.seek(ENTRY, SEEK_CUR)
        return Container(name="N%d" % idx, file_type=0x73, size=10, start=1 + idx,
                         file_stream=AbsFile(100))


def aligned(bad: int, consumed: int) -> int:
    """
    pre: 0 <= bad < 4 and 0 <= consumed <= 24
    post: _ == 1
    """
    fe.Int16ul = StubInt16
    log = []
    ad = fe.FileEntriesAdapter(None, StubEntry(bad, consumed, log))
    ctx = Container(_elem_parent=None, _elem_routines={}, sat=None)
    entries = ad._parse(Table(4), ctx, "")
    want = [i * ENTRY for i in range(4)]
    if log != want:
        return 0
    names = [e.name for e in entries]
    if names != ["N%d" % i for i in range(4) if i != bad]:
        return 0
    return 1
