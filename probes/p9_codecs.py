from smpl_extract.midi import MidiNote
from smpl_extract.akai.akai_string import _fast_akai_to_ascii_byte, _char_format_convert_byte
from smpl_extract.akai.data_types import CharFormat, InvalidCharacter, parse_akai_tune_cents, build_akai_tune_cents

def midi_rt(b: int) -> int:
    """
    pre: 0 <= b <= 255
    post: _ == b
    """
    return MidiNote.from_akai_byte(b).to_akai_byte()

def midi_text(deg: int, sharp: bool, octave: int) -> int:
    """
    pre: 0 <= deg <= 6 and 0 <= octave <= 9
    post: _ == 1
    """
    from smpl_extract.midi import ScaleDegree
    n = MidiNote(ScaleDegree(deg), sharp, octave)
    m = MidiNote.from_string(n.to_string())
    return 1 if m == n else 0

def akai_char(b: int) -> int:
    """
    pre: 0 <= b <= 255
    post: _ == 1
    """
    valid = b <= 0x28
    try:
        a = _fast_akai_to_ascii_byte(b)
    except InvalidCharacter:
        return 0 if valid else 1
    if not valid:
        return 0
    back = _char_format_convert_byte(a, CharFormat.ASCII, CharFormat.AKAI)
    return 1 if back == b else 0

def tune(b: int) -> int:
    """
    pre: -128 <= b <= 127
    post: _ == b
    """
    return build_akai_tune_cents(parse_akai_tune_cents(b))
