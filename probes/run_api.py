import sys, time, importlib
from crosshair.core_and_libs import analyze_function, run_checkables
from crosshair.options import AnalysisOptionSet
mod = importlib.import_module(sys.argv[1]); fn = getattr(mod, sys.argv[2])
t0 = time.time()
msgs = run_checkables(analyze_function(fn, AnalysisOptionSet(per_condition_timeout=float(sys.argv[3]), report_all=True)))
for m in msgs: print(m.state.name, m.message[:200])
print("paths(body executions):", getattr(mod, "CNT", ["?"])[0], "wall", round(time.time() - t0, 1))
