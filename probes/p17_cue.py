"""Probe: real parse_cue_sheet with symbolically chosen cosmetic variants / insertions per line position."""
from smpl_extract.cuesheet import parse_cue_sheet, BadCueSheet

CANON = ['FILE "a.bin" BINARY', '  TRACK 01 AUDIO', '    TITLE "One"', '    INDEX 00 00:00:00', '    INDEX 01 00:02:00',
         '  TRACK 02 AUDIO', '    INDEX 01 03:10:45']
import re as _re
def _recase(line, f):
    parts = _re.split(r'("[^"]*")', line)          # keep quoted payload untouched
    return "".join(p if p.startswith('"') else f(p) for p in parts)
def variant(line, v):
    if v == 0: return line + "\n"
    if v == 1: return line.strip() + "\n"
    if v == 2: return "\t " + _recase(line, str.lower) + "  \r\n"
    return " " + _recase(line, lambda p: "".join(c.upper() if i % 2 else c.lower() for i, c in enumerate(p))) + "\n"
INS = [None, "\n", "   \n", "REM COMMENT x\n", '    PERFORMER "p"\n', "    FLAGS DCP\n", "    PREGAP 00:02:00\n"]
def summary(c):
    return (c.bin_file_name, [(t.number, t.mode.upper(), t.title, [(i.number, i.n_minutes, i.n_seconds, i.n_frames) for i in t.indices]) for t in c.tracks])
WANT = summary(parse_cue_sheet([l + "\n" for l in CANON]))

def cosmetics(v0: int, v1: int, v2: int, v3: int, v4: int, v5: int, v6: int,
              i0: int, i2: int, i3: int, i4: int, i5: int, i6: int, i7: int) -> int:
    """
    pre: 0 <= v0 < 4 and 0 <= v1 < 4 and 0 <= v2 < 4 and 0 <= v3 < 4 and 0 <= v4 < 4 and 0 <= v5 < 4 and 0 <= v6 < 4
    pre: 0 <= i0 < 4 and 0 <= i2 < 7 and 0 <= i3 < 7 and 0 <= i4 < 7 and 0 <= i5 < 7 and 0 <= i6 < 7 and 0 <= i7 < 7
    post: _ == 1
    """
    vs = [v0, v1, v2, v3, v4, v5, v6]
    ins = [i0, 0, i2, i3, i4, i5, i6, i7]          # nothing unknown between FILE and first TRACK (statement)
    if ins[1] != 0: return 1
    lines = []
    for k in range(7):
        if INS[ins[k]] is not None: lines.append(INS[ins[k]])
        lines.append(variant(CANON[k], vs[k]))
    if INS[ins[7]] is not None: lines.append(INS[ins[7]])
    try:
        got = summary(parse_cue_sheet(lines))
    except BadCueSheet:
        return 0
    return 1 if got == WANT else 0
