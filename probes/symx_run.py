import itertools, sys, time, re
import z3
from symx_proto import *
from smpl_extract.structural import Image

PATS = {
    "_INVALID_CHARS_REMOVE": Image._INVALID_CHARS_REMOVE,
    "_INVALID_CHARS_REPLACE": Image._INVALID_CHARS_REPLACE,
    "_SAFE_ENDING": Image._SAFE_ENDING,
    "_INVALID_FILE_NAME": Image._INVALID_FILE_NAME,
    "_STEREO_FILENAME": Image._STEREO_FILENAME,
}
SP = {k: SymPattern(v.pattern, v.flags) for k, v in PATS.items()}


def ev(e):
    return z3.simplify(e)


def concrete_of(symstr):
    n = ev(symstr.n).as_long()
    return "".join(chr(ev(c).as_long()) for c in symstr.c[:n])


def validate(alphabet, maxlen):
    """translator validation: symbolic regex on concrete strings == CPython re"""
    n = bad = 0
    for L in range(maxlen + 1):
        for tup in itertools.product(alphabet, repeat=L):
            s = "".join(tup)
            cap = max(L, 1)
            ss = SymStr([ord(ch) for ch in s] + [0] * (cap - L), L)
            for name, sp in SP.items():
                rm = PATS[name].match(s)
                sm = sp.match(ss)
                ok = z3.is_true(ev(sm.ok))
                n += 1
                if ok != bool(rm):
                    bad += 1; print("MATCH MISMATCH", name, repr(s), bool(rm), ok)
                elif rm:
                    for g in range(1, (rm.re.groups or 0) + 1):
                        if concrete_of(sm.group(g)) != rm.group(g):
                            bad += 1; print("GROUP MISMATCH", name, repr(s), g, repr(rm.group(g)), repr(concrete_of(sm.group(g))))
                if name in ("_INVALID_CHARS_REMOVE", "_INVALID_CHARS_REPLACE", "_INVALID_FILE_NAME"):
                    for repl in ("", " "):
                        want = PATS[name].sub(repl, s)
                        got = concrete_of(sp.sub(repl, ss))
                        n += 1
                        if want != got:
                            bad += 1; print("SUB MISMATCH", name, repr(s), repr(want), repr(got))
    return n, bad


if sys.argv[1] == "validate":
    t0 = time.time()
    print(validate(" -.:LRa1'/\n(", int(sys.argv[2])), round(time.time() - t0, 1), "s")
    sys.exit(0)

# ---- symbolic run of the REAL make_export_name
N = int(sys.argv[2])


class _I(Image):
    def __init__(self):
        pass


for k, v in SP.items():
    setattr(_I, k, v)
make_export_name = instrument(Image.make_export_name, {"re": ReShim()})
make_safe_name = instrument(Image.make_safe_name, {"re": ReShim()})
_I.make_safe_name = make_safe_name
img = _I()

okpat = SymPattern(r"\w[\w\-.#() ]*$")
for is_file in (True, False):
    name = SymStr([z3.BitVec(f"c{i}", BW) for i in range(N)], z3.Int("n"))
    base = [name.n >= 0, name.n <= N] + [z3.ULT(c, MAXCP) for c in name.c]
    holder = {}

    def body():
        out = make_export_name(img, name, is_file)
        out = SymStr.lift(out)
        comp = out + ".wav" if is_file else out
        holder["out"] = comp
        viol = z3.Or(comp.n <= 0,
                     z3.Not(okpat.match(comp).ok),
                     is_space(comp.at(comp.n - 1)), comp.at(comp.n - 1) == ord("."),
                     comp.eq("."), comp.eq(".."))
        return viol

    t0 = time.time()
    EX.paths = EX.queries = 0; EX.solver_s = 0.0
    res = EX.explore(body, base)
    print("is_file", is_file, "N", N, "->", "REFUTED" if res else "discharged", "paths", EX.paths, "queries", EX.queries,
          "solver_s", round(EX.solver_s, 2), "wall", round(time.time() - t0, 2))
    if res:
        print("   name =", repr(name.concrete(res[0])), " component =", repr(holder["out"].concrete(res[0])),
              " real:", repr(Image.make_export_name(img.__class__.__mro__[1].__new__(Image), name.concrete(res[0]), is_file)))
