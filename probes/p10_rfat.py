from types import SimpleNamespace
import smpl_extract.roland.s7xx.fat as rf
from smpl_extract.util.fat import InvalidFatDefinition, RequestedInvalidSector
from construct.core import ConstructError, Pass

N = 12
rf.FAT_NUM_ENTRIES = N      # width reduction 65536 -> 12 (stated bound); loop covers entries 2 .. N-10 => need N-9 > 2
VALS = [0x0000, 0x0001, 0xfff7, 0xfff8, 0xffff, 2, 3, 4, 5, 20]

class Fuel(Exception): pass
class CountingList(list):
    def __init__(self, it, fuel):
        super().__init__(it); self.fuel = fuel
    def __getitem__(self, i):
        self.fuel -= 1
        if self.fuel < 0: raise Fuel()
        return list.__getitem__(self, i)

def roland_terminates(e2: int, e3: int, e4: int, e5: int) -> int:
    """
    pre: 0 <= e2 < 10 and 0 <= e3 < 10 and 0 <= e4 < 10 and 0 <= e5 < 10
    post: _ == 1
    """
    ent = [0, 0, VALS[e2], VALS[e3], VALS[e4], VALS[e5]] + [0] * (N - 6)
    meta = SimpleNamespace(fat_id=0xfffa, num_unused_clusters=0, version_flag_1=0xffff, version_flag_2=0xffff)
    cont = SimpleNamespace(fat_entries=CountingList(ent, 200), metadata=meta, fat_data_stream=None)
    try:
        rf.FatAreaAdapter(Pass)._decode(cont, {}, "")
    except ConstructError:
        return 1
    except Fuel:
        return 0
    return 1
