"""Probe: insertion invariance of real parse_cue_sheet over symbolic kind sequences (inductive step)."""
from smpl_extract.cuesheet import parse_cue_sheet, BadCueSheet
KIND = ['FILE "a.bin" BINARY\n', '  TRACK 01 AUDIO\n', '  TRACK 02 MODE1/2352\n', '    INDEX 01 00:02:00\n', '    TITLE "T"\n']
INS = ["\n", "   \n", "REM x\n", '    PERFORMER "p"\n', "    FLAGS DCP\n", "    PREGAP 00:02:00\n"]
CNT = [0]
def summ(lines):
    try:
        c = parse_cue_sheet(list(lines))
    except BadCueSheet:
        return "bad"
    return (c.bin_file_name, [(t.number, t.mode, t.title, [(i.number, i.n_minutes, i.n_seconds, i.n_frames) for i in t.indices]) for t in c.tracks])
def allowed(kinds, p):
    """insertion position p is 'before the FILE line or inside a track' (statement)"""
    if 0 not in kinds[:p]:
        return True                                  # before the (first) FILE line
    f = kinds.index(0)
    return any(k in (1, 2) for k in kinds[f + 1:p])  # after a TRACK line following FILE
def step(k0: int, k1: int, k2: int, k3: int, p: int, ins: int) -> int:
    """
    pre: 0 <= k0 < 5 and 0 <= k1 < 5 and 0 <= k2 < 5 and 0 <= k3 < 5
    pre: 0 <= p <= 4 and 0 <= ins < 6
    post: _ == 1
    """
    CNT[0] += 1
    kinds = [k0, k1, k2, k3]
    if not allowed(kinds, p):
        return 1
    X = [KIND[k] for k in kinds]
    Y = X[:p] + [INS[ins]] + X[p:]
    return 1 if summ(X) == summ(Y) else 0
