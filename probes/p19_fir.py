"""Probe: FirFilter (pure-Python class inside fir.pyx) on index-map arrays; 2-block run vs 1-block run."""
import re, textwrap
SRC = open("/repo/smpl_extract/filters/fir.pyx").read()
m = re.search(r"^class FirFilter:.*?(?=^# -- Chicken Sys --|^cdef |\Z)", SRC, re.S | re.M)
CLS_SRC = m.group(0)

ZERO = -1
class Arr:
    """1-D array as (n, at): at(i) -> global input position, or ZERO"""
    def __init__(self, n, at, dtype="f8"):
        self.n, self.at, self.dtype = n, at, dtype
    def __len__(self): return self.n
    def astype(self, dt): return Arr(self.n, self.at, dt)
    def __getitem__(self, sl):
        assert isinstance(sl, slice) and sl.stop is None and sl.step is None
        st = sl.start
        n, at = self.n, self.at
        if st < 0:
            st = n + st
            if st < 0: st = 0
        elif st > n:
            st = n
        return Arr(n - st, lambda i: at(i + st), self.dtype)
class Win:
    """output of a valid convolution: element i is the window x[i : i+N]"""
    def __init__(self, n, x, N, dtype="f8"):
        self.n, self.x, self.N, self.dtype = n, x, N, dtype
    def __len__(self): return self.n
    def astype(self, dt): return self
class Np:
    ndarray = object
    @staticmethod
    def zeros(n): return Arr(n, lambda i: ZERO)
    @staticmethod
    def size(a): return len(a)
    @staticmethod
    def asarray(lst, dtype=None):
        assert lst == []
        return Win(0, None, 0)
    @staticmethod
    def concatenate(parts):
        a, b = parts
        na, aa, ba = a.n, a.at, b.at
        return Arr(a.n + b.n, lambda i: aa(i) if i < na else ba(i - na))
    @staticmethod
    def convolve(x, h, mode):
        assert mode == "valid"
        return Win(x.n - h.n + 1, x, h.n)
ns = {"np": Np, "Optional": None}
exec(compile(CLS_SRC, "fir.pyx:FirFilter", "exec"), ns)
FirFilter = ns["FirFilter"]

def ref_window(o, t, m0):
    """global input position feeding tap t of output sample o (unsplit semantics): o - m1... """
    return o + t

def two_blocks(N: int, m0: int, L1: int, L2: int, o: int, t: int) -> int:
    """
    pre: 2 <= N <= 6 and 0 <= m0 < N
    pre: N - 1 <= L1 <= 10 and N - 1 <= L2 <= 10
    pre: 0 <= o and 0 <= t < N
    post: _ == 1
    """
    h = Arr(N, lambda i: ZERO)
    f = FirFilter(h, m0)
    m1 = N - m0 - 1
    x1 = Arr(L1, lambda i: i)
    x2 = Arr(L2, lambda i: L1 + i)
    outs = [f.process(x1), f.process(x2), f.get_remaining()]
    total = len(outs[0]) + len(outs[1]) + len(outs[2])
    if total != L1 + L2:
        return 0
    # output sample o (global index) must see window positions (o - m1 + t) in the zero-padded signal
    if o < total:
        base = 0
        for w in outs:
            if o < base + len(w):
                src = w.x.at(o - base + t)
                want = o - m1 + t
                if want < 0 or want >= L1 + L2:
                    want = ZERO
                return 1 if src == want else 0
            base += len(w)
    return 1
