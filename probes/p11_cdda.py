from absfile import AbsFile
from smpl_extract.cuesheet import CueSheetFile, CueSheetTrack, CueSheetIndex
from smpl_extract.cdda.image import CompactDiskAudioImageAdapter

def tiles(m0: int, s0: int, f0: int, m1: int, s1: int, f1: int, m2: int, s2: int, f2: int, eof: int) -> int:
    """
    pre: 0 <= m0 <= 99 and 0 <= s0 <= 59 and 0 <= f0 <= 74
    pre: 0 <= m1 <= 99 and 0 <= s1 <= 59 and 0 <= f1 <= 74
    pre: 0 <= m2 <= 99 and 0 <= s2 <= 59 and 0 <= f2 <= 74
    pre: (m0*60+s0)*75+f0 < (m1*60+s1)*75+f1 < (m2*60+s2)*75+f2
    pre: ((m2*60+s2)*75+f2) * 2352 < eof
    post: _ == 1
    """
    F = [(m0*60+s0)*75+f0, (m1*60+s1)*75+f1, (m2*60+s2)*75+f2]
    cue = CueSheetFile("x.bin", [
        CueSheetTrack(1, "AUDIO", None, [CueSheetIndex(1, m0, s0, f0)]),
        CueSheetTrack(2, "AUDIO", "t", [CueSheetIndex(0, m1, s1, f1), CueSheetIndex(1, m1, s1, f1 )]),
        CueSheetTrack(3, "AUDIO", None, [CueSheetIndex(1, m2, s2, f2)]),
    ])
    img = CompactDiskAudioImageAdapter.from_bin_cue(AbsFile(eof), cue)
    tr = img.tracks
    if len(tr) != 3:
        return 0
    for i in range(3):
        ds = tr[i]._data_stream
        if ds.offset != 2352 * F[i]:
            return 0
        end = 2352 * F[i+1] if i < 2 else eof
        if ds.end_of_file != end - ds.offset:
            return 0
    return 1
