"""Probe: CrossHair on real AKAI SAT decode + get_path with a symbolic table."""
from typing import List
from smpl_extract.akai.sat import SegmentAllocationTableAdapter
from smpl_extract.roland.s7xx.fat import FatAreaAdapter
from smpl_extract.util.fat import FileAllocationTable, SectorLink, InvalidFatDefinition, RequestedInvalidSector
from construct.core import Pass

FREE, EOF, RES = 0x0000, 0xC000, 0x4000


class Fuel(Exception):
    pass


class CountingList(list):
    def __init__(self, it, fuel):
        super().__init__(it)
        self.fuel = fuel
    def __getitem__(self, i):
        self.fuel -= 1
        if self.fuel < 0:
            raise Fuel()
        return list.__getitem__(self, i)


def ref_chain(block, start, n):
    """independent reference: follow table from start; None if not well-formed"""
    path = []
    cur = start
    for _ in range(n + 1):
        if cur < 0 or cur >= n:
            return None
        if cur in path:
            return None
        v = block[cur]
        if v == FREE or v == RES or v == 0x8000:
            return None
        path.append(cur)
        if v == EOF:
            return path
        cur = v
    return None


def akai_chain(b0: int, b1: int, b2: int, b3: int, start: int) -> int:
    """
    pre: 0 <= b0 <= 0xFFFF and 0 <= b1 <= 0xFFFF and 0 <= b2 <= 0xFFFF and 0 <= b3 <= 0xFFFF
    pre: 0 <= start < 4
    post: _ == 1
    """
    block = [b0, b1, b2, b3]
    n = 4
    ad = SegmentAllocationTableAdapter(None, Pass)
    sat = ad._decode(CountingList(block, 200), {}, "")
    try:
        got = sat.get_path(start)
    except (InvalidFatDefinition, RequestedInvalidSector):
        got = None
    exp = ref_chain(block, start, n)
    if exp is None:
        return 1
    # every sector of exp linked from exactly one place (no cross link)
    for s in exp:
        cnt = 0
        for j in range(n):
            if block[j] == s:
                cnt += 1
        if s == start:
            if cnt != 0:
                return 1
        elif cnt != 1:
            return 1
    if got != exp:
        return 0
    return 1
