"""Probe: real sanitize_names_general x2 + combine_stereo_routine on N symbolic sibling names (C06.unique)."""
import sys, time, itertools
import z3
from symx_proto import *
from smpl_extract.structural import Image
from smpl_extract.base import ElementTypes
from smpl_extract.generalized.sample import Sample

N, LEN = int(sys.argv[1]), int(sys.argv[2])
ALPHA = [ord(c) for c in "LRA1 -.()#/'"]

class _I(Image):
    def __init__(self): pass

ov = {"re": ReShim()}
for k in ("_INVALID_CHARS_REMOVE", "_INVALID_CHARS_REPLACE", "_SAFE_ENDING", "_INVALID_FILE_NAME", "_STEREO_FILENAME"):
    v = getattr(Image, k)
    setattr(_I, k, SymPattern(v.pattern, v.flags))
for fn in ("make_safe_name", "make_export_name", "_add_count_to_name", "sanitize_names_general",
           "make_safe_names_routine", "make_export_names_routine", "combine_stereo_routine"):
    setattr(_I, fn, instrument2(getattr(Image, fn), ov))
for fn in ("make_safe_name", "make_export_name", "_add_count_to_name"):
    setattr(_I, fn, summarized(getattr(_I, fn)))
img = _I()

names = [SymStr([z3.BitVec(f"c{e}_{i}", BW) for i in range(LEN)], z3.Int(f"n{e}")) for e in range(N)]
base = []
for s in names:
    base += [s.n >= 1, s.n <= LEN]
    base += [in_set(c, ALPHA) for c in s.c]
# symmetry breaking is NOT applied: order matters for the counters

def body():
    elems = [Sample(name=names[e], _path=["d", "x"]) for e in range(N)]
    elems = img.make_safe_names_routine(elems)
    elems = img.make_export_names_routine(elems)
    outs = img.combine_stereo_routine(elems)
    finals = [SymStr.lift(o.export_name) for o in outs]
    body.finals = finals
    viol = [a.eq(b) for a, b in itertools.combinations(finals, 2)]
    return z3.Or(viol) if viol else z3.BoolVal(False)

t0 = time.time()
res = EX.explore(body, base)
print("N", N, "LEN", LEN, "->", "REFUTED" if res else "discharged", "paths", EX.paths, "queries", EX.queries,
      "subpaths", EX.subpaths, "solver_s", round(EX.solver_s, 1), "wall", round(time.time() - t0, 1))
if res:
    m = res[0]
    raw = [s.concrete(m) for s in names]
    print("  raw names:", raw)
    print("  final export names:", [f.concrete(m) for f in body.finals])
    # replay on the unmodified code
    real = Image.__new__(Image)
    el = [Sample(name=r, _path=["d", "x"]) for r in raw]
    el = real.make_export_names_routine(real.make_safe_names_routine(el))
    print("  replay on real code:", [o.export_name for o in real.combine_stereo_routine(el)])
