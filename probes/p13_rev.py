"""Probe: Roland reverse loop mode through real to_generalized + StreamReversed on an index-map numpy shim."""
import numpy as real_np
from absfile import AbsFile, Spans
import smpl_extract.util.stream as S
from smpl_extract.roland.s7xx.fat import RolandFile
from smpl_extract.roland.s7xx.sample_file import SampleFile
from smpl_extract.roland.s7xx.sample_entry import SampleParamLoopPoint
from smpl_extract.roland.s7xx.data_types import RolandLoopMode, DATA_FAT_OFFSET
from smpl_extract.util.stream import StreamOffset
from smpl_extract.transcoder import make_transcoder
from smpl_extract.data_streams import StreamEncoding, Endianess

L = 9216

class RevView:
    """bytes-like: sample-reversed view of a Spans object"""
    def __init__(self, spans, rows, cols):
        self.spans, self.rows, self.cols = spans, rows, cols
    def __len__(self):
        return self.rows * self.cols
    def __getitem__(self, sl):
        assert isinstance(sl, slice) and sl.start is None and sl.step is None
        return self          # resize_buffer only truncates to whole frames; lengths here are even
    def addr(self, k):
        r, c = k // self.cols, k % self.cols
        return self.spans.addr((self.rows - 1 - r) * self.cols + c)

class _Arr:
    def __init__(self, spans, rows=None, cols=None, flipped=False):
        self.spans, self.rows, self.cols, self.flipped = spans, rows, cols, flipped
    def flatten(self, order="C"):
        return self
    def tobytes(self):
        assert self.flipped
        return RevView(self.spans, self.rows, self.cols)

class NpShim:
    dtype = real_np.dtype
    @staticmethod
    def frombuffer(raw, dt):
        return _Arr(raw)
    @staticmethod
    def reshape(arr, shape):
        return _Arr(arr.spans, shape[0], shape[1])
    @staticmethod
    def flip(arr, axis):
        assert axis == 0
        return _Arr(arr.spans, arr.rows, arr.cols, True)

S.np = NpShim

def reverse_oneshot(c0: int, c1: int, start: int, s_end: int, k: int) -> int:
    """
    pre: 2 <= c0 < 30 and 2 <= c1 < 30 and c0 != c1
    pre: 0 <= start <= s_end and 2 * (s_end + 1) <= 2 * L
    pre: 2 * (s_end + 1) < 2 * L
    pre: 0 <= k
    post: _ == 1
    """
    f = AbsFile(DATA_FAT_OFFSET + 40 * L)
    data = StreamOffset(f, 40 * L, DATA_FAT_OFFSET)
    sl = [c0, c1]
    rf = RolandFile(data, sl)
    P = SampleParamLoopPoint
    sf = SampleFile(loop_mode=RolandLoopMode.REVERSE_ONESHOT, start_sample=P(0, start), sustain_loop_start=P(0, start),
                    sustain_loop_end=P(0, s_end), release_loop_start=P(0, 0), release_loop_end=P(0, 0),
                    name="x", _data_stream=rf)
    g = sf.to_generalized()
    enc = StreamEncoding(endianess=Endianess.LITTLE, sample_width=2, num_interleaved_channels=1)
    tr = make_transcoder(g.data_streams, enc)
    blocks, total = [], 0
    for blk in tr:
        blocks.append((total, blk)); total += len(blk)
        if len(blocks) > 8: return 0
    n = s_end - start + 1
    if total != 2 * n: return 0
    if k < total:
        for (b0, blk) in blocks:
            if b0 <= k < b0 + len(blk):
                w = start + (n - 1 - k // 2)
                i = 2 * w + k % 2
                if blk.addr(k - b0) != DATA_FAT_OFFSET + sl[i // L] * L + i % L:
                    return 0
    return 1
