"""Feasibility: bounded char-array encoding of make_export_name in z3 (hand-encoded prototype)."""
import z3, time, sys, re
N = int(sys.argv[1])
B = 8
def C(ch): return z3.BitVecVal(ord(ch), B)
def is_word(c):
    return z3.Or(z3.And(z3.UGE(c, C('0')), z3.ULE(c, C('9'))), z3.And(z3.UGE(c, C('A')), z3.ULE(c, C('Z'))),
                 z3.And(z3.UGE(c, C('a')), z3.ULE(c, C('z'))), c == C('_'))
def is_ws(c):
    return z3.Or(c == C(' '), z3.And(z3.UGE(c, 9), z3.ULE(c, 13)), z3.And(z3.UGE(c, 28), z3.ULE(c, 31)))
def ok_file(c):  # [\w\-\.# ]
    return z3.Or(is_word(c), c == C('-'), c == C('.'), c == C('#'), c == C(' '))

class S:
    def __init__(self, chars, length): self.c, self.n = chars, length   # list of BV, Int

def ite_index(chars, idx, default):
    r = default
    for i in reversed(range(len(chars))):
        r = z3.If(idx == i, chars[i], r)
    return r

def sub_class_plus(s, inv, repl):
    n = len(s.c)
    keep, emit = [], []
    for i in range(n):
        bad = inv(s.c[i])
        prevbad = inv(s.c[i-1]) if i > 0 else z3.BoolVal(False)
        keep.append(z3.And(i < s.n, z3.Or(z3.Not(bad), z3.Not(prevbad))))
        emit.append(z3.If(bad, repl, s.c[i]))
    pos = []
    acc = z3.IntVal(0)
    for i in range(n):
        pos.append(acc); acc = acc + z3.If(keep[i], 1, 0)
    out = []
    for j in range(n):
        r = z3.BitVecVal(0, B)
        for i in reversed(range(j, n)):
            r = z3.If(z3.And(keep[i], pos[i] == j), emit[i], r)
        out.append(r)
    return S(out, acc)

def strip(s):
    n = len(s.c)
    lead = z3.IntVal(n)
    for i in reversed(range(n)):
        lead = z3.If(z3.And(i < s.n, z3.Not(is_ws(s.c[i]))), i, lead)
    lead = z3.If(lead > s.n, s.n, lead)
    # last non-ws index
    last = z3.IntVal(-1)
    for i in range(n):
        last = z3.If(z3.And(i < s.n, z3.Not(is_ws(s.c[i]))), i, last)
    newn = z3.If(last < 0, 0, last - lead + 1)
    out = [ite_index(s.c, lead + j, z3.BitVecVal(0, B)) for j in range(n)]
    return S(out, newn)

def safe_ending_group1(s):
    # (.+?)\s*\.?\s*$  -> shortest k>=1 with tail matching; '.' excludes \n ; $ may precede trailing \n
    n = len(s.c)
    # A0[i]: suffix from i in \s*\.?\s*$ ; A1[i]: suffix from i in \s*$
    A1 = [None]*(n+1); A0 = [None]*(n+1)
    A1[n] = z3.BoolVal(True); A0[n] = z3.BoolVal(True)
    for i in reversed(range(n)):
        end = i >= s.n
        A1[i] = z3.Or(end, z3.And(is_ws(s.c[i]), A1[i+1]))
        A0[i] = z3.Or(end, z3.And(is_ws(s.c[i]), A0[i+1]), z3.And(s.c[i] == C('.'), A1[i+1]))
    k = z3.IntVal(-1)
    nonl = z3.BoolVal(True)
    conds = []
    for kk in range(1, n+1):
        nonl = z3.And(nonl, s.c[kk-1] != 10)
        conds.append((kk, z3.And(kk <= s.n, nonl, A0[kk])))
    for kk, cnd in reversed(conds):
        k = z3.If(cnd, kk, k)
    return k  # -1 => no match

name = S([z3.BitVec(f"c{i}", B) for i in range(N)], z3.Int("len"))
sol = z3.Solver()
sol.add(name.n >= 0, name.n <= N)
for c in name.c: sol.add(z3.ULT(c, 128))
s1 = sub_class_plus(name, lambda c: z3.Not(ok_file(c)), C(' '))
s2 = strip(s1)
k = safe_ending_group1(s2)
n3 = z3.If(k >= 0, k, s2.n)
# export = s2[:n3] ; if empty -> "0"; if first not \w -> "0"+ ; file => + ".wav"
first = s2.c[0]
empty = n3 <= 0
needs0 = z3.And(z3.Not(empty), z3.Not(is_word(first)))
# property: all chars of s2[:n3] in allowed set and last char (file: irrelevant since .wav appended)
viol = []
for i in range(N):
    ch = s2.c[i]
    allowed = z3.Or(is_word(ch), ch == C(' '), ch == C('-'), ch == C('.'), ch == C('#'), ch == C('('), ch == C(')'))
    viol.append(z3.And(i < n3, z3.Not(allowed)))
# directory variant: ends in space or dot?
lastc = ite_index(s2.c, n3 - 1, z3.BitVecVal(0, B))
dir_last = z3.If(z3.Or(lastc == C('.'), lastc == C('-')), C('0'), lastc)
viol.append(z3.And(z3.Not(empty), z3.Or(dir_last == C(' '), dir_last == C('.'))))
sol.add(z3.Or(viol))
t0 = time.time(); r = sol.check(); print(N, r, round(time.time()-t0, 2))
if r == z3.sat:
    m = sol.model(); L = m.eval(name.n).as_long()
    print(repr("".join(chr(m.eval(c, model_completion=True).as_long()) for c in name.c[:L])))
