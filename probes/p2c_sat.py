"""AKAI decode, n=5, kind skeleton fixed per function; link targets + start symbolic."""
from smpl_extract.akai.sat import SegmentAllocationTableAdapter
from smpl_extract.util.fat import InvalidFatDefinition, RequestedInvalidSector
from construct.core import Pass
FREE, EOF, RES, RES2 = 0x0000, 0xC000, 0x4000, 0x8000
N = 5
class Fuel(Exception): pass
class CountingList(list):
    def __init__(self, it, fuel):
        super().__init__(it); self.fuel = fuel
    def __getitem__(self, i):
        self.fuel -= 1
        if self.fuel < 0: raise Fuel()
        return list.__getitem__(self, i)
def ref_chain(block, start, n):
    path, cur = [], start
    for _ in range(n + 1):
        if cur < 0 or cur >= n or cur in path: return None
        v = block[cur]
        if v in (FREE, RES, RES2): return None
        path.append(cur)
        if v == EOF: return path
        cur = v
    return None
def verdict(block, start):
    try:
        sat = SegmentAllocationTableAdapter(None, Pass)._decode(CountingList(block, 300), {}, "")
        sat.sector_links = CountingList(sat.sector_links, 50)
        try:
            got = sat.get_path(start)
        except (InvalidFatDefinition, RequestedInvalidSector):
            got = None
    except Fuel:
        return 0
    exp = ref_chain(block, start, N)
    if exp is None: return 1
    for s in exp:
        cnt = sum(1 for j in range(N) if block[j] == s)
        if (s == start and cnt != 0) or (s != start and cnt != 1): return 1
    if exp[0] != min(exp): return 1          # head-not-lowest region is F2: separate obligation
    return 2 if got == exp else -1

def sk_LLLEE(t0: int, t1: int, t2: int, start: int) -> int:
    """
    pre: 1 <= t0 <= 6 and 1 <= t1 <= 6 and 1 <= t2 <= 6
    pre: 0 <= start < 5
    post: _ >= 1
    """
    return verdict([t0, t1, t2, EOF, EOF], start)

def sk_LELLE(t0: int, t2: int, t3: int, start: int) -> int:
    """
    pre: 1 <= t0 <= 6 and 1 <= t2 <= 6 and 1 <= t3 <= 6
    pre: 0 <= start < 5
    post: _ >= 1
    """
    return verdict([t0, EOF, t2, t3, EOF], start)

def sk_LLLLE(t0: int, t1: int, t2: int, t3: int, start: int) -> int:
    """
    pre: 1 <= t0 <= 6 and 1 <= t1 <= 6 and 1 <= t2 <= 6 and 1 <= t3 <= 6
    pre: 0 <= start < 5
    post: _ >= 1
    """
    return verdict([t0, t1, t2, t3, EOF], start)
