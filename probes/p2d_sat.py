from p2c_sat import *
import p2c_sat
p2c_sat.N = 3
CNT = [0]
def n3(e0: int, e1: int, e2: int, start: int) -> int:
    """
    pre: 0 <= e0 < 7 and 0 <= e1 < 7 and 0 <= e2 < 7
    pre: 0 <= start < 3
    post: _ >= 1
    """
    V = [FREE, EOF, RES, RES2, 1, 2, 7]
    CNT[0] += 1
    return verdict([V[e0], V[e1], V[e2]], start)
