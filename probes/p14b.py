"""Probe: real FileEntryConstruct/FileEntriesAdapter on a BytesIO table with ONE symbolic byte (realised)."""
import io
from construct.lib.containers import Container
import smpl_extract.akai.file_entry as fe
from smpl_extract.akai.akai_string import char_ascii_to_akai
from absfile import AbsFile
CNT = [0]
class Sat:
    def get_segment(self, start):
        return AbsFile(8192)
def entry(name, typ, size, start):
    return char_ascii_to_akai(name.ljust(12)) + bytes(4) + bytes([typ]) + size.to_bytes(3, "little") + start.to_bytes(2, "little") + bytes(2)
BASE = entry("AAA", 0x73, 300, 5) + entry("BBB", 0x73, 400, 6) + entry("CCC", 0xf3, 500, 7) + bytes(24)
def names(tbl):
    ad = fe.FileEntriesAdapter(Sat(), fe.FileEntryConstruct)
    ctx = Container(_elem_parent=None, _elem_routines={}, sat=Sat())
    ents = ad._parse(io.BytesIO(tbl), ctx, "")
    return [(e.name, int(e.file_type)) for e in ents]
WANT = names(BASE)
def type_byte(b: int) -> int:
    """
    pre: 0 <= b <= 255
    post: _ == 1
    """
    CNT[0] += 1
    tbl = BASE[:24 + 16] + bytes([b]) + BASE[24 + 17:]
    got = names(tbl)
    others = [x for x in got if x[0] != "BBB"]
    return 1 if others == [WANT[0], WANT[2]] else 0
