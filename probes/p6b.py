from io import SEEK_SET
from absfile import AbsFile, Spans
from smpl_extract.util.stream import StreamOffset, StreamWrapper
from smpl_extract.util.fat import FileStream
L = 8192
def mk(A, B):
    f = AbsFile(64 * L)
    part = StreamOffset(f, 60 * L, 2 * L)
    return [
        StreamOffset(StreamWrapper(FileStream(part, L, [A, B]), 2 * L - 7), 2 * L - 200, 140),
        StreamOffset(StreamWrapper(FileStream(part, L, [B + 20, A + 20]), 2 * L - 9), 2 * L - 300, 140),
    ]
def rd(s, n):
    r = s.read(n)
    return (len(r), r.addr(0) if len(r) > 0 else -1, r.addr(len(r) - 1) if len(r) > 0 else -1)
def sk_read0_seek1_read1_read0(a0: int, a1: int, a2: int, a3: int, A: int, B: int) -> int:
    """
    pre: 0 <= a0 <= 20000 and 0 <= a1 <= 20000 and 0 <= a2 <= 20000 and 0 <= a3 <= 20000
    pre: 0 <= A < 10 and 0 <= B < 10 and A != B
    post: _ == 1
    """
    s = mk(A, B)
    x0 = rd(s[0], a0); s[1].seek(a1, SEEK_SET); y0 = rd(s[1], a2); x1 = rd(s[0], a3)
    t = mk(A, B)
    if (x0, x1) != (rd(t[0], a0), rd(t[0], a3)): return 0
    u = mk(A, B)
    u[1].seek(a1, SEEK_SET)
    if y0 != rd(u[1], a2): return 0
    return 1
