from io import SEEK_SET
from absfile import AbsFile, Spans
from smpl_extract.util.stream import StreamOffset, StreamWrapper
from smpl_extract.util.fat import FileStream

L = 8192

def run(ops, A: int, B: int):
    f = AbsFile(64 * L)
    part = StreamOffset(f, 60 * L, 2 * L)          # shared partition window
    s = [
        StreamOffset(StreamWrapper(FileStream(part, L, [A, B]), 2 * L - 7), 2 * L - 200, 140),
        StreamOffset(StreamWrapper(FileStream(part, L, [B + 20, A + 20]), 2 * L - 9), 2 * L - 300, 140),
        StreamOffset(f, 5000, 777),
    ]
    out = [[], [], []]
    for (w, is_seek, arg) in ops:
        if is_seek:
            s[w].seek(arg, SEEK_SET)
        else:
            r = s[w].read(arg)
            out[w].append((len(r), r.addr(0) if len(r) > 0 else -1, r.addr(len(r) - 1) if len(r) > 0 else -1))
    return out

def isolated(w0: int, k0: bool, a0: int, w1: int, k1: bool, a1: int, w2: int, k2: bool, a2: int, w3: int, k3: bool, a3: int, A: int, B: int) -> int:
    """
    pre: 0 <= w0 < 3 and 0 <= w1 < 3 and 0 <= w2 < 3 and 0 <= w3 < 3
    pre: 0 <= a0 <= 9000 and 0 <= a1 <= 9000 and 0 <= a2 <= 9000 and 0 <= a3 <= 9000
    pre: 0 <= A < 10 and 0 <= B < 10 and A != B
    post: _ == 1
    """
    ops = [(w0, k0, a0), (w1, k1, a1), (w2, k2, a2), (w3, k3, a3)]
    mixed = run(ops, A, B)
    for w in range(3):
        alone = run([o for o in ops if o[0] == w], A, B)
        if mixed[w] != alone[w]:
            return 0
    return 1
