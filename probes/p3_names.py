"""Probe: CrossHair on the real name sanitiser with a symbolic str."""
import re
from smpl_extract.structural import Image

class _I(Image):
    def __init__(self):
        pass

IMG = _I()
OK = re.compile(r"^\w[\w\-.#() ]*$")


def export_name_safe(name: str, is_file: bool) -> int:
    """
    pre: len(name) <= 3
    post: _ == 1
    """
    out = IMG.make_export_name(name, is_file)
    if is_file:
        out = out + ".wav"
    if len(out) == 0:
        return 0
    if not OK.match(out):
        return 0
    if out[-1] in (" ", "."):
        return 0
    if out in (".", ".."):
        return 0
    return 1
