from io import SEEK_SET, SEEK_CUR, SEEK_END


class Spans:
    """abstract bytes: list of (start, length) address ranges of the backing file"""
    def __init__(self, parts=()):
        self.parts = list(parts)
    def __len__(self):
        n = 0
        for (_s, l) in self.parts:
            n = n + l
        return n
    def __add__(self, other):
        return Spans(self.parts + other.parts)
    def __iadd__(self, other):
        self.parts = self.parts + other.parts
        return self
    def __getitem__(self, sl):
        # only prefix slices buffer[:n] are used by the code under analysis
        assert isinstance(sl, slice) and sl.start is None and sl.step is None
        n = sl.stop
        out = []
        for (s, l) in self.parts:
            if n <= 0:
                break
            if l <= n:
                out.append((s, l))
                n = n - l
            else:
                out.append((s, n))
                n = 0
        return Spans(out)
    def addr(self, k):
        for (s, l) in self.parts:
            if k < l:
                return s + k
            k = k - l
        raise IndexError


class AbsFile:
    """backing file of `size` bytes whose byte at address a 'is' a."""
    def __init__(self, size):
        self.size = size
        self.pos = 0
    def tell(self):
        return self.pos
    def seek(self, off, whence=SEEK_SET):
        if whence == SEEK_SET:
            p = off
        elif whence == SEEK_CUR:
            p = self.pos + off
        else:
            p = self.size + off
        if p < 0:
            raise ValueError("negative seek")
        self.pos = p
        return p
    def read(self, n):
        avail = self.size - self.pos
        if avail < 0:
            avail = 0
        if n > avail:
            n = avail
        r = Spans([(self.pos, n)]) if n > 0 else Spans()
        self.pos = self.pos + n
        return r
