"""Probe: CrossHair on real StreamOffset / FileStream with an abstract 'span' backing file."""
from typing import List, Tuple
from io import SEEK_SET, SEEK_CUR, SEEK_END
from smpl_extract.util.stream import StreamOffset, StreamWrapper
from smpl_extract.util.fat import FileStream


class Spans:
    """abstract bytes: list of (start, length) address ranges of the backing file"""
    def __init__(self, parts=()):
        self.parts = list(parts)
    def __len__(self):
        n = 0
        for (_s, l) in self.parts:
            n = n + l
        return n
    def __add__(self, other):
        return Spans(self.parts + other.parts)
    def __iadd__(self, other):
        self.parts = self.parts + other.parts
        return self
    def addr(self, k):
        for (s, l) in self.parts:
            if k < l:
                return s + k
            k = k - l
        raise IndexError


class AbsFile:
    """backing file of `size` bytes whose byte at address a 'is' a."""
    def __init__(self, size):
        self.size = size
        self.pos = 0
    def tell(self):
        return self.pos
    def seek(self, off, whence=SEEK_SET):
        if whence == SEEK_SET:
            p = off
        elif whence == SEEK_CUR:
            p = self.pos + off
        else:
            p = self.size + off
        if p < 0:
            raise ValueError("negative seek")
        self.pos = p
        return p
    def read(self, n):
        avail = self.size - self.pos
        if avail < 0:
            avail = 0
        if n > avail:
            n = avail
        r = Spans([(self.pos, n)]) if n > 0 else Spans()
        self.pos = self.pos + n
        return r


def offset_read(fsize: int, size: int, offset: int, seek_to: int, n: int, k: int) -> int:
    """
    pre: 0 < size and 0 <= offset and offset + size <= fsize and fsize <= 100000
    pre: 0 <= n <= 100000 and -100000 <= seek_to <= 100000
    pre: 0 <= k
    post: _ == 1
    """
    f = AbsFile(fsize)
    s = StreamOffset(f, size, offset)
    newpos = s.seek(seek_to, SEEK_SET)
    exp_pos = min(max(seek_to, 0), size)
    if newpos != exp_pos:
        return 0
    r = s.read(n)
    exp_n = min(n, size - exp_pos)
    if len(r) != exp_n:
        return 0
    if s.tell() != exp_pos + exp_n:
        return 0
    if k < exp_n:
        if r.addr(k) != offset + exp_pos + k:
            return 0
    return 1


def chain_read(s0: int, s1: int, s2: int, L: int, seek_to: int, n: int, k: int) -> int:
    """
    pre: 0 <= s0 < 50 and 0 <= s1 < 50 and 0 <= s2 < 50
    pre: L == 8192
    pre: 0 <= seek_to < 3 * L and 0 <= n <= 3 * L + 5
    pre: 0 <= k
    post: _ == 1
    """
    f = AbsFile(50 * L)
    fs = FileStream(f, L, [s0, s1, s2])
    sl = [s0, s1, s2]
    p = fs.seek(seek_to, SEEK_SET)
    if p != seek_to:
        return 0
    r = fs.read(n)
    exp_n = min(n, 3 * L - p)
    if len(r) != exp_n:
        return 0
    if k < exp_n:
        i = p + k
        if r.addr(k) != sl[i // L] * L + i % L:
            return 0
    return 1
