"""Probe: real sanitize_names_general with identity sanitiser on N symbolic candidate names (decomposed C06.unique)."""
import sys, time, itertools
import z3
from symx_proto import *
from smpl_extract.structural import Image
from smpl_extract.generalized.sample import Sample

N, LEN = int(sys.argv[1]), int(sys.argv[2])
ALPHA = [ord(c) for c in "LRA1 -()"]


class _I(Image):
    def __init__(self):
        pass


ov = {"re": ReShim()}
v = Image._STEREO_FILENAME
_I._STEREO_FILENAME = SymPattern(v.pattern, v.flags)
for fn in ("_add_count_to_name", "sanitize_names_general"):
    setattr(_I, fn, instrument2(getattr(Image, fn), ov))
_I._add_count_to_name = summarized(_I._add_count_to_name)
img = _I()

names = [SymStr([z3.BitVec(f"c{e}_{i}", BW) for i in range(LEN)], z3.Int(f"n{e}")) for e in range(N)]
base = []
for s in names:
    base += [s.n >= 1, s.n <= LEN] + [in_set(c, ALPHA) for c in s.c]


def body():
    elems = [Sample(name=names[e], _path=["d", "x"]) for e in range(N)]
    out = {}
    img.sanitize_names_general(elems, lambda n, is_file: n, lambda el, nm: out.__setitem__(id(el), nm))
    finals = [SymStr.lift(out[id(e)]) for e in elems]
    body.finals = finals
    return z3.Or([a.eq(b) for a, b in itertools.combinations(finals, 2)])


t0 = time.time()
res = EX.explore(body, base)
print("N", N, "LEN", LEN, "->", "REFUTED" if res else "discharged", "paths", EX.paths, "queries", EX.queries,
      "subpaths", EX.subpaths, "solver_s", round(EX.solver_s, 1), "wall", round(time.time() - t0, 1))
if res:
    m = res[0]
    raw = [s.concrete(m) for s in names]
    print("  candidates:", raw, "->", [f.concrete(m) for f in body.finals])
    real = Image.__new__(Image)
    el = [Sample(name=r, _path=["d", "x"]) for r in raw]
    got = {}
    real.sanitize_names_general(el, lambda n, f: n, lambda e, nm: got.__setitem__(id(e), nm))
    print("  replay on real code:", [got[id(e)] for e in el])
