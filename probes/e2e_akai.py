import os, subprocess, sys, wave, struct, shutil
from akai_writer import *
def words(n, seed):
    return b"".join(struct.pack("<h", ((i * 7 + seed * 1000) % 60000) - 30000) for i in range(n))
def run(tag, files):
    d = f"/tmp/probe/e2e_{tag}"; shutil.rmtree(d, ignore_errors=True); os.makedirs(d)
    img = partition([("VOL ONE", files, None)])
    open(f"{d}/img.iso", "wb").write(img)
    for cmd in (["ls", f"{d}/img.iso", "A/VOL ONE"], ["export", f"{d}/img.iso", "-d", f"{d}/out"]):
        r = subprocess.run(["/venv/bin/python", "-m", "smpl_extract"] + cmd, capture_output=True, text=True, timeout=120)
        print(f"[{tag}] $ {' '.join(cmd[:1])} -> rc={r.returncode}")
        print("   " + "\n   ".join((r.stdout + r.stderr).strip().splitlines()[-8:]))
    for root, _ds, fs in os.walk(f"{d}/out"):
        for f in fs:
            p = os.path.join(root, f)
            try:
                w = wave.open(p); print("   ", os.path.relpath(p, d), w.getnchannels(), w.getframerate(), w.getnframes())
            except Exception as e:
                print("   ", os.path.relpath(p, d), "UNREADABLE", type(e).__name__, os.path.getsize(p), "bytes")
    return d
A = words(5000, 1)
run("basic", [("SAW", 0x73, sample_file("SAW", A), None),
              ("LEAD -L", 0x73, sample_file("LEAD -L", words(3000, 2), rate=22050), None),
              ("LEAD -R", 0x73, sample_file("LEAD -R", words(3000, 3), rate=22050), None)])
# F2: chain whose head is not its lowest sector (2-sector file, sectors swapped)
d = run("revchain", [("REV", 0x73, sample_file("REV", A), [1, 0])])
got = open(f"{d}/out/A/VOL ONE/REV.wav", "rb").read() if os.path.exists(f"{d}/out/A/VOL ONE/REV.wav") else b""
print("   REV pcm matches:", got[-len(A):] == A if got else None, "wav bytes", len(got), "expected pcm", len(A))
# F1: file fills its last sector exactly: 140 + 2n = 8192 -> n = 4026
run("exact", [("FILL", 0x73, sample_file("FILL", words(4026, 4)), None)])
# F5: empty window
run("empty", [("EMPTY", 0x73, sample_file("EMPTY", words(2000, 5), start=10, end=10), None), ("NEXT", 0x73, sample_file("NEXT", words(100, 6)), None)])
