"""Probe: real Traversable.parse_path under symx (C10.token)."""
import sys, time
import z3
from symx_proto import *
from smpl_extract.structural import Traversable, ErrorInvalidPath, Image
from smpl_extract.akai.image import AkaiImageParser
from smpl_extract.elements import LeafElement

MODE, LEN = sys.argv[1], int(sys.argv[2])
ALPHA = [ord(c) for c in "aA: /\\."] + [0xE9 % 128]

class Leaf:
    def __init__(self, name): self.safe_name = name; self.name = name
class Dir(Traversable):
    def __init__(self, name, kids):
        self.safe_name_ = name; self.kids = kids; self.name = name
    @property
    def safe_name(self): return self.safe_name_
    @property
    def children(self): return self.kids
    def get_info(self): return None

tok = Traversable._TOKENIZE_PATH_REGEX
def mk(cls_sanitize):
    class Root(Dir):
        _TOKENIZE_PATH_REGEX = SymPattern(tok.pattern, tok.flags)
    Root.parse_path = instrument2(Traversable.parse_path, {"re": ReShim()})
    Root._sanitize_string = instrument2(cls_sanitize, {})
    return Root

def sym(name, L):
    s = SymStr([z3.BitVec(f"{name}{i}", BW) for i in range(L)], z3.Int(f"{name}_n"))
    return s, [s.n >= 0, s.n <= L] + [in_set(c, ALPHA) for c in s.c]

for label, san in (("generic", Traversable._sanitize_string), ("akai", AkaiImageParser._sanitize_string)):
    Root = mk(san)
    leaf = Leaf("bb")
    d0, d1 = Dir("A:", [leaf]), Dir("x.y", [])
    root = Root("", [d0, d1])
    if MODE == "total":
        path, base = sym("p", LEN)
        def body():
            try:
                node = root.parse_path(path)
            except ErrorInvalidPath:
                return z3.BoolVal(False)
            except StopIteration:
                return z3.BoolVal(True)
            return z3.BoolVal(not (node is root or node is d0 or node is d1 or node is leaf))
    else:
        b0, c0 = sym("b0", 1); b1, c1 = sym("b1", 1); b2, c2 = sym("b2", 1)
        base = c0 + c1 + c2 + [z3.Or(s.n == 0, is_space(s.c[0])) for s in (b0, b1, b2)]
        sep = sys.argv[3] if len(sys.argv) > 3 else "/"
        path = b0 + "A:" + b1 + sep + "bb" + b2
        def body():
            try:
                node = root.parse_path(path)
            except ErrorInvalidPath:
                return z3.BoolVal(True)
            return z3.BoolVal(node is not leaf)
    EX.paths = EX.queries = 0; EX.solver_s = 0.0
    t0 = time.time()
    try:
        res = EX.explore(body, base)
        print(label, MODE, "->", "REFUTED" if res else "discharged", "paths", EX.paths, "queries", EX.queries, "wall", round(time.time() - t0, 1))
        if res:
            print("   path =", repr(path.concrete(res[0])))
    except Exception as e:
        import traceback; traceback.print_exc()
