#!/bin/sh
# Builds the overlay venv used by every check: /venv's python + /venv's site-packages (repo deps,
# editable smpl_extract -> /repo) + crosshair-tool/z3-solver from the offline wheelhouse.
set -e
cd "$(dirname "$0")"
V=.venv
if [ -x "$V/bin/python" ] && "$V/bin/python" -c "import crosshair, z3, construct, numpy, smpl_extract" 2>/dev/null; then
  exit 0
fi
rm -rf "$V"
/venv/bin/python -m venv "$V"
SP=$("$V/bin/python" -c "import sysconfig; print(sysconfig.get_paths()['purelib'])")
printf "import site; site.addsitedir('/venv/lib/python3.12/site-packages')\n" > "$SP/_verif_base.pth"
PIP_NO_INDEX=1 "$V/bin/python" -m pip install -q --no-index --find-links /opt/veriftools/wheels crosshair-tool z3-solver
"$V/bin/python" -c "import crosshair, z3, construct, numpy, smpl_extract; print('verif venv ok', z3.get_version_string())"
