#!/bin/sh
# tools/run_all.sh quick|thorough [IDs...] : run the checks one after another, print one summary line each
TIER=${1:-quick}; shift
IDS=${@:-C01 C02 C03 C04 C05 C06 C07 C08 C09 C10 C11 C12 C13 C14 C15 C16 C17 C18 C19 C20}
cd "$(dirname "$0")/.."
for P in $IDS; do
  S=$(date +%s)
  ./check $P --tier $TIER > /tmp/runall_${TIER}_$P.log 2>&1; RC=$?
  E=$(date +%s)
  echo "$P rc=$RC $((E-S))s $(grep -E "^$P " /tmp/runall_${TIER}_$P.log | cut -c1-160)"
  grep -E "^(VIOLATION|HARNESS-ERROR|note:)" /tmp/runall_${TIER}_$P.log | cut -c1-220 | head -6
done
