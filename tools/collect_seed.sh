#!/bin/sh
# tools/collect_seed.sh <PID> <seed-id> <worktree> : verify a seeded change and store it under /verif/seeded/<seed-id>/
set -e
PID=$1; SID=$2; WT=$3
OUT=/verif/seeded/$SID
mkdir -p $OUT
git -C $WT diff -- smpl_extract > $OUT/patch.diff
test -s $OUT/patch.diff || { echo "empty diff"; exit 1; }
cp $WT/demo_$PID.py $OUT/demo.py
cd $WT
echo "== tests with change"; PYTHONPATH=$WT /venv/bin/python -m pytest -q -p no:cacheprovider 2>&1 | tail -1 | tee $OUT/.tests
echo "== demo with change"; if PYTHONPATH=$WT /venv/bin/python demo_$PID.py > $OUT/.demo_with 2>&1; then echo "demo PASSES with change (bad)"; W=0; else echo "demo fails with change (good)"; W=1; fi
git apply -R $OUT/patch.diff
echo "== demo without change"; if PYTHONPATH=$WT /venv/bin/python demo_$PID.py > $OUT/.demo_without 2>&1; then echo "demo passes without change (good)"; O=1; else echo "demo FAILS without change (bad)"; O=0; fi
git apply $OUT/patch.diff
tail -3 $OUT/.demo_with
echo "with=$W without=$O"
