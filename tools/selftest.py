#!/usr/bin/env python3
"""self-test of detection power: apply one-line changes (DESIGN.md section 9) to a SCRATCH worktree of /repo, run the check, expect VIOLATION.
usage: tools/selftest.py [name-substring ...]      (never touches /repo itself)"""
import os
import subprocess
import sys

M = [
    # (name, property, file, old, new, --only filter or None)
    ("C01-window-plus1", "C01", "smpl_extract/akai/sample.py", "(this.play_end - this.play_start)\n", "(this.play_end - this.play_start + 1)\n", None),
    ("C01-window-nostart", "C01", "smpl_extract/akai/sample.py", "this.data_address + (AKAI_SAMPLE_WORDLENGTH * \\", "this.data_address + (0 * \\", None),
    ("C08-read-le-lt", "C08", "smpl_extract/util/sector.py", "if initial_sector_offset + size <= self.sector_length:", "if initial_sector_offset + size < self.sector_length:", "C08.chain"),
    ("C08-fat-index", "C08", "smpl_extract/util/fat.py", "sector  = self.sector_list[sector_index]", "sector  = sector_index", "C08.chain"),
    ("C08-clamp", "C08", "smpl_extract/util/stream.py", "        if new_position > self.end_of_file:\n            new_position = self.end_of_file\n", "        if new_position > self.end_of_file + 1:\n            new_position = self.end_of_file\n", "C08.offset"),
    ("C08-seekend", "C08", "smpl_extract/util/stream.py", "            starting_position = self.end_of_file\n", "            starting_position = self.position\n", "C08.offset"),
    ("C08-posadd", "C08", "smpl_extract/util/stream.py", "        self.position += self.true_size\n", "        self.position += size\n", "C08.offset"),
    ("C08-reversed-addr", "C08", "smpl_extract/util/stream.py", "true_address = self.end_of_file - (address + self.true_size)", "true_address = self.end_of_file - address", "C08.reversed"),
    ("C02-plus1", "C02", "smpl_extract/roland/s7xx/sample_file.py", "    num_samples = points.release_end - offset_sample + 1\n    stream_result = StreamOffset(\n        stream,\n        ROLAND_SAMPLE_WIDTH * num_samples,\n        ROLAND_SAMPLE_WIDTH * offset_sample\n    )\n\n    sustain_start   = max(0, points.sustain_start - offset_sample)\n    sustain_end     = max(0, points.sustain_end - offset_sample)\n    release_start", "    num_samples = points.release_end - offset_sample\n    stream_result = StreamOffset(\n        stream,\n        ROLAND_SAMPLE_WIDTH * num_samples,\n        ROLAND_SAMPLE_WIDTH * offset_sample\n    )\n\n    sustain_start   = max(0, points.sustain_start - offset_sample)\n    sustain_end     = max(0, points.sustain_end - offset_sample)\n    release_start", "C02.mode/1"),
    ("C02-mapswap", "C02", "smpl_extract/roland/s7xx/sample_file.py", "RolandLoopMode.ONESHOT:           _get_oneshot_params,", "RolandLoopMode.ONESHOT:           _get_forward_oneshot_params,", "C02.mode/2"),
    ("C02-clusteroff", "C02", "smpl_extract/roland/s7xx/fat.py", "sector_list = sector_list[cluster_offset:]", "sector_list = sector_list[cluster_offset+1:]", "C02.fat"),
    ("C02-addr", "C02", "smpl_extract/roland/s7xx/sample_entry.py", "(SAMPLE_PARAMETER_ENTRY_SIZE*new_index_expr(this)) \\", "(SAMPLE_DIRECTORY_ENTRY_SIZE*new_index_expr(this)) \\", "C02.addr"),
    ("C03-fps", "C03", "smpl_extract/cuesheet.py", "_AUDIO_FRAMES_PER_SECOND = 75", "_AUDIO_FRAMES_PER_SECOND = 74", "C03.msf"),
    ("C03-min", "C03", "smpl_extract/cuesheet.py", "total_seconds = 60*self.n_minutes + self.n_seconds", "total_seconds = 60*self.n_seconds + self.n_minutes", "C03.msf"),
    ("C04-byterate", "C04", "smpl_extract/formats/wav.py", "this.sample_rate * this.channel_cnt * this.bits_per_sample//8", "this.sample_rate * this.bits_per_sample//8", "C04.fmt"),
    ("C04-blockalign", "C04", "smpl_extract/formats/wav.py", "        this.channel_cnt * this.bits_per_sample//8\n", "        this.channel_cnt * this.bits_per_sample//4\n", "C04.fmt"),
    ("C05-marked", "C05", "smpl_extract/structural.py", "                    marked[alternate_name] = True\r\n", "                    pass\r\n", "C05.pair"),
    ("C12-orderF", "C12", "smpl_extract/transcoder.py", "reshape((-1,), order='F')", "reshape((-1,), order='C')", "ch=1+1"),
    ("C06-slash", "C06", "smpl_extract/structural.py", "_INVALID_FILE_NAME = re.compile(r\"[^\\w\\-\\.# ]+\")", "_INVALID_FILE_NAME = re.compile(r\"[^\\w\\-\\.#/ ]+\")", "C06.charset"),
    ("C06-nostrip", "C06", "smpl_extract/structural.py", "export_name = self._INVALID_FILE_NAME.sub(\" \", name).strip()", "export_name = self._INVALID_FILE_NAME.sub(\" \", name)", "C06.charset"),
    ("C06-nowhile", "C06", "smpl_extract/structural.py", "                    while (next_name in candidate_names.keys()):\r\n", "                    while False:\r\n", "C06.dedupe"),
    ("C07-allend", "C07", "smpl_extract/util/fat.py", "sector_links[prev_link] = SectorLink(next=link, end=False)", "sector_links[prev_link] = SectorLink(next=link, end=True)", "C07.links"),
    ("C07-nodirty", "C07", "smpl_extract/akai/sat.py", "                    dirty_flags[subpath_index] = True\n                    links.append(subpath_index)\n", "                    links.append(subpath_index)\n", "C07.akai/n=3"),
    ("C09-hdr12", "C09", "smpl_extract/alcohol/mdf.py", "MDF_SECTOR_HEADER_SIZE  = 16", "MDF_SECTOR_HEADER_SIZE  = 12", "C09.mdf"),
    ("C09-mdxfirst", "C09", "smpl_extract/actions.py", "    if is_mdf_image(file_stream):\n        file_stream = MdfStream(file_stream)\n    elif is_mdx_image(file_stream):\n        file_stream = MdxStream(file_stream)\n", "    if is_mdx_image(file_stream):\n        file_stream = MdxStream(file_stream)\n    elif is_mdf_image(file_stream):\n        file_stream = MdfStream(file_stream)\n", "C09.cascade"),
    ("C10-nostrip-token", "C10", "smpl_extract/structural.py", "        result = input_str.strip()\r\n        return result\r\n", "        result = input_str\r\n        return result\r\n", "C10.addr/generic"),
    ("C10-keep-trailing", "C10", "smpl_extract/structural.py", "        if len(tokens) > 0 and len(tokens[-1]) < 1:\r\n", "        if False:\r\n", "C10"),
    ("C11-noreseek", "C11", "smpl_extract/util/stream.py", "        if expected_position != true_position:\n            self._seek(self.position)\n", "        if False:\n            self._seek(self.position)\n", "C11"),
    ("C11-relseek", "C11", "smpl_extract/util/sector.py", "        self.substream.seek(start_address, SEEK_SET)\n", "        self.substream.seek(start_address - self.substream.tell(), 1)\n", "C11"),
    ("C12-dstswap", "C12", "smpl_extract/transcoder.py", "x.encoding.endianess != system_byte_order for x in data_streams", "x.encoding.endianess != dest_encoding.endianess for x in data_streams", "host=B"),
    ("C12-anyall", "C12", "smpl_extract/transcoder.py", "if any(len(x) <= 0 for x in channels):", "if all(len(x) <= 0 for x in channels):", "ch=1+1"),
    ("C13-subpathguard", "C13", "smpl_extract/akai/sat.py", "                    if subpath_index >= size:\n", "                    if subpath_index > size + 5:\n", "C13.fuel"),
    ("C14-narrow", "C14", "smpl_extract/akai/file_entry.py", "except (ConstructError, RequestedInvalidSector):", "except (RequestedInvalidSector,):", "C14.align"),
    ("C14-break", "C14", "smpl_extract/util/constructs.py", "            except (UnicodeDecodeError, ConstructError, KeyError, IndexError) as e:\r\n                continue\r\n", "            except (UnicodeDecodeError, ConstructError, KeyError, IndexError) as e:\r\n                break\r\n", "C14.roland"),
    ("C15-nolen", "C15", "smpl_extract/util/sector.py", "        if len(result) != size:\n            raise SectorReadError", "        if False:\n            raise SectorReadError", "C15.akai-stereo"),
    ("C16-filecache", "C16", "smpl_extract/akai/file_entry.py", "        if not self._file:\n            self._file = self._f_file_content()\n        return self._file", "        self._file = self._f_file_content()\n        return self._file", "C16.memo"),
    ("C17-noI", "C17", "smpl_extract/cuesheet.py", "_INDEX_LINE_REGEX = re.compile(r\"\\s*INDEX\\s+(\\d+)\\s+(\\d+):(\\d+):(\\d+)\", flags=re.I)", "_INDEX_LINE_REGEX = re.compile(r\"\\s*INDEX\\s+(\\d+)\\s+(\\d+):(\\d+):(\\d+)\")", "C17.line"),
    ("C17-nopush", "C17", "smpl_extract/cuesheet.py", "                lines = [text] + lines\n                break\n\n            # check known properties", "                break\n\n            # check known properties", "C17.insert"),
    ("C18-charmap", "C18", "smpl_extract/akai/data_types.py", "CHAR_MAP_POUND     = { CharFormat.ASCII: ord(\"#\"),  CharFormat.AKAI: 0x25 }", "CHAR_MAP_POUND     = { CharFormat.ASCII: ord(\"#\"),  CharFormat.AKAI: 0x26 }", "C18.char"),
    ("C18-scale", "C18", "smpl_extract/midi.py", "            0x04:   (ScaleDegree.C, True),\n            0x05:   (ScaleDegree.D, False),", "            0x04:   (ScaleDegree.D, False),\n            0x05:   (ScaleDegree.C, True),", "C18.note"),
    ("C18-M256", "C18", "smpl_extract/akai/data_types.py", "    M = 255/100\n", "    M = 256/100\n", "C18.tune"),
    ("C19-xprevN", "C19", "smpl_extract/filters/fir.pyx", "self.x_prev = x[-(self.N - 1):]", "self.x_prev = x[-self.N:]", None),
    ("C19-m1", "C19", "smpl_extract/filters/fir.pyx", "self.m1 = self.N - self.m0 - 1", "self.m1 = self.N - self.m0", None),
    ("C20-signed", "C20", "smpl_extract/akai/sample.py", "\"pitch_offset_semi\"     / Int8sl,", "\"pitch_offset_semi\"     / Int8ul,", "C20.layout/akai-sample"),
    ("C20-swap", "C20", "smpl_extract/akai/sample.py", "    \"play_start\"            / Int32ul,\n    \"play_end\"              / Int32ul,", "    \"play_end\"              / Int32ul,\n    \"play_start\"            / Int32ul,", "C20.layout/akai-sample"),
    ("C20-pad", "C20", "smpl_extract/akai/program.py", "    Padding(1),                 # program number", "    Padding(2),                 # program number", "C20.layout/akai-program"),
    ("C20-shift", "C20", "smpl_extract/roland/s7xx/sample_entry.py", "(this.raw_value >> 8)", "(this.raw_value >> 7)", "C02.looppoint"),
]


def main():
    filt = sys.argv[1:]
    res = []
    for (name, pid, path, old, new, only) in M:
        if filt and not any(f in name for f in filt):
            continue
        wt = "/tmp/vf_selftest_%d" % os.getpid()
        subprocess.run(["git", "-C", "/repo", "worktree", "add", "-q", "--detach", wt, "HEAD"], check=True)
        try:
            subprocess.run("cp /repo/smpl_extract/filters/*.so %s/smpl_extract/filters/" % wt, shell=True, check=True)
            fp = os.path.join(wt, path)
            src = open(fp, newline="").read()
            if old not in src:
                res.append((name, pid, "PATTERN-NOT-FOUND"))
                continue
            open(fp, "w", newline="").write(src.replace(old, new, 1))
            t = subprocess.run("cd %s && PYTHONPATH=%s /venv/bin/python -m pytest -q -p no:cacheprovider 2>&1 | tail -1" % (wt, wt), shell=True, capture_output=True, text=True).stdout.strip()
            chk = "C02" if name == "C20-shift" else pid
            cmd = ["./check", chk, "--tier", "quick"] + (["--only", only] if only else [])
            p = subprocess.run(cmd, cwd="/verif", env=dict(os.environ, VF_REPO=wt), capture_output=True, text=True)
            viol = [ln for ln in p.stdout.splitlines() if ln.startswith("VIOLATION")]
            res.append((name, pid, "rc=%d viol=%d tests[%s]" % (p.returncode, len(viol), t)))
            print(res[-1], flush=True)
        finally:
            subprocess.run(["git", "-C", "/repo", "worktree", "remove", "--force", wt])
    subprocess.run(["git", "-C", "/verif", "checkout", "--", "evidence"])
    print("\nSUMMARY")
    for r in res:
        print(" ", r)
    missed = [r for r in res if "rc=1" not in r[2]]
    print("missed/other:", missed)


if __name__ == "__main__":
    main()
