#!/bin/sh
# tools/try_seed.sh <seed-id> <tier> <PID> [<PID> ...] : apply a seeded change to /repo, run checks, always revert
SID=$1; TIER=$2; shift 2
cd /verif
git -C /repo diff --quiet || { echo "/repo is dirty"; exit 2; }
git -C /repo apply /verif/seeded/$SID/patch.diff || { echo "patch does not apply"; exit 2; }
for P in "$@"; do
  echo "=== $SID vs $P ($TIER)"
  ./check $P --tier $TIER ${ONLY:+--only $ONLY} > /tmp/try_$SID_$P.log 2>&1; RC=$?
  grep -E "^(VIOLATION|KNOWN|HARNESS)" /tmp/try_$SID_$P.log | cut -c1-300 | head -5
  grep -E "^$P " /tmp/try_$SID_$P.log | cut -c1-200
  echo "exit=$RC"
done
git -C /repo checkout -- . 
git -C /verif checkout -- evidence 2>/dev/null
