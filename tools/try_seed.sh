#!/bin/sh
# tools/try_seed.sh <seed-id> <tier> <PID> [<PID> ...] : apply a seeded change to a scratch worktree of /repo (never to /repo itself),
# run the checks against it (VF_REPO), remove the worktree
SID=$1; TIER=$2; shift 2
cd /verif
WT=/tmp/vf_seedwt_$$
git -C /repo worktree add -q --detach $WT HEAD || exit 2
cp /repo/smpl_extract/filters/*.so $WT/smpl_extract/filters/
git -C $WT apply /verif/seeded/$SID/patch.diff || { echo "patch does not apply"; git -C /repo worktree remove --force $WT; exit 2; }
for P in "$@"; do
  echo "=== $SID vs $P ($TIER)"
  VF_EVIDENCE_DIR=/tmp/vf_seed_evidence VF_REPO=$WT ./check $P --tier $TIER ${ONLY:+--only $ONLY} > /tmp/try_${SID}_$P.log 2>&1; RC=$?
  grep -E "^VIOLATION" /tmp/try_${SID}_$P.log | cut -c1-300 | head -3
  grep -E "^(KNOWN|HARNESS)" /tmp/try_${SID}_$P.log | cut -c1-300 | head -3
  grep -E "^$P " /tmp/try_${SID}_$P.log | cut -c1-200
  echo "exit=$RC"
done
git -C /repo worktree remove --force $WT
