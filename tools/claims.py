# claim(pid, text, technique, design_ref) / NA[pid] = reason  -- read by gen_manifest.py
XT = "bounded symbolic execution of the real functions (CrossHair + z3), one solver-decided obligation per skeleton"
E2E = " End to end (decision-tree obligations, concrete per path): "

claim("C08", "Every view class (StreamOffset, FileStream/SectorStream, MdfStream, StreamReversed and the depth-4 nestings the tool builds) "
      "is executed symbolically on an abstract backing file; for every operation history of the stated length with all arguments, window "
      "geometry and sector numbers symbolic, z3 shows the results equal an independent read-only-file model, or returns a history that is replayed on io.BytesIO.",
      XT, "DESIGN.md 2/C08")

claim("C07", "The real SAT/FAT decoders, get_path, get_file, add_to_sector_links and FileStream are executed symbolically on tables whose raw 16-bit "
      "words are all symbolic; z3 shows that every well-formed chain resolves to exactly the reference walk, that the byte stream over it is the "
      "concatenation of those sectors, and (unwinding assertion over fuel lists) that no table in the bound makes resolution loop.",
      XT + "; termination as solver-checked unwinding assertion", "DESIGN.md 2/C07")

claim("C01", "The stream stack of an AKAI sample file is built by the live construct nodes (partition window, file_stream lambda, data_stream window) over an "
      "abstract file and drained through the real AkaiSample.to_generalized / WavSampleAdapter._encode / transcoder; for every partition start, sector order, "
      "file size and marker pair in the bound z3 shows the emitted bytes are exactly words [start,end) of the chain; window expressions and the sample-rate "
      "path are separate obligations; chains = C07, names/pairs = C05/C06." + E2E + "whole AKAI images from the independent writer vf/akaiw.py (1..2 partitions, "
      "solver-chosen sector orders, sizes, directory forms and markers) go through determine_image_type + export and every exported file is compared byte for byte.",
      XT, "DESIGN.md 2/C01")

claim("C03", "MSF arithmetic, from_bin_cue's window construction for 1..4 audio tracks (symbolic MSF, extra INDEX lines, TITLE presence, any bin length), "
      "the whole drain of a track through the real WAV encoder/transcoder over an abstract bin file, and the all-audio/data-track dispatch are each "
      "executed symbolically and compared with the tiling stated in the property." + E2E + "bin + cue text written independently, exported through the real "
      "entry points, PCM compared with the bin slices.", XT, "DESIGN.md 2/C03")

claim("C12", "The real transcoder (both iterator classes, block sizing, de-interleave, byte-order steps, pad and interleave) runs on an index-map numpy stand-in; "
      "per configuration (streams x channels x width x byte orders x host order) z3 shows for all stream lengths, block sizes and output bytes that "
      "byte b of frame f of channel c comes from the same-numbered source channel, byte-reversed iff the orders differ, and that the frame count lies "
      "between shortest and longest source.", XT + " on an index-map numpy stand-in", "DESIGN.md 2/C12")

claim("C11", "Two real stream stacks of each kind the tool builds (AKAI windows in one partition, CDDA windows on the bin handle, Roland forward/reversed "
      "windows in the data area, windows over one raw-sector view) share ONE abstract file handle. Decided as an inductive step - one seek/read of a "
      "stream from an ARBITRARY state of every cursor below it (each layer's position/true_size and the handle position symbolic) returns the "
      "isolated-reading bytes and leaves the sibling untouched - which covers interleavings of any length; cross-checked by enumerated 3/4-operation "
      "schedules (streams, shared parent view, raw handle), by the real stereo transcoder's alternating reads, and by ls/export histories on one image object "
      "(incl. two Roland samples stored inside one FAT chain) compared with fresh objects.",
      XT + "; inductive step over arbitrary shared-cursor states", "DESIGN.md 2/C11")

claim("C18", "Character maps (all 256 bytes each way, and names composed per character), note numbers (all bytes, AKAI and MIDI bases) and note text "
      "(7x2x10) are executed symbolically against an independently transcribed table; the tuning byte <-> cents codec is executed on a symbolic signed "
      "byte with IEEE-754 double semantics (QF_BVFP) and z3 shows build(parse(b)) == b; the three live note FIELD adapters (AKAI, Roland original key, WAV smpl) "
      "are run on a symbolic byte.", XT + "; symx QF_BVFP for the float codec", "DESIGN.md 2/C18")

claim("C14", "The real AKAI table loop runs over an abstract table with a nondeterministic entry sub-parser (symbolic damaged index, symbolic bytes "
      "consumed before the error, symbolic exception type): every other entry is parsed from its own slot and survives in order; the real "
      "FileEntryConstruct is additionally run on a concrete table with one symbolic byte per field (solver walks all 256 values); Volume._realize_files, "
      "SafeListConstruct and the Roland partial's reference loop are run with symbolically failing sub-parsers." + E2E + "in a whole S-770 image (independent writer "
      "vf/rolandw.py) one byte of one sample's directory or parameter record takes all 256 values, for a damaged sample of every loop mode; the other samples "
      "stay listed and export unchanged.",
      XT + " with nondeterministic sub-parser stubs", "DESIGN.md 2/C14")

claim("C13", "Every loop named in the anchors is run symbolically with a fuel counter whose exhaustion z3 shows unreachable (unwinding assertion): cue-sheet "
      "line consumption for every sequence of line kinds, the AKAI partition scan with a nondeterministic partition body (symbolic size words incl. 0), "
      "StreamWrapper.readall, the SAT/FAT decoders and get_path (shared with C07), the directory table loop (shared with C14), and the export drain of an "
      "AKAI / Roland / CDDA sample whose header points are ARBITRARY (emitted bytes <= chain bytes). For every compiled pattern of the package z3 searches a "
      "string that one repeated group parses in two ways (exponential backtracking), replayed on the real re engine. The whole-program "
      "CPU/memory-proportionality clause is a measurement and is NOT claimed (see level_note).",
      XT + "; termination as solver-checked unwinding assertions", "DESIGN.md 2/C13",
      note=TRUST + " NOT covered: CPU seconds / peak memory of whole runs on arbitrary bytes (not expressible as a bounded symbolic claim); loops inside construct/numpy; keygroup chains.")

claim("C15", "The AKAI mono stack (C01), the AKAI stereo pair through the real PipelineTranscoder and the CDDA drain are re-run with the backing file cut at a "
      "symbolic byte position: z3 shows the loop ends, every block is whole frames, every emitted byte is the byte the complete image yields at that PCM "
      "position and lies below the cut (no padding, no foreign bytes), and a sample whose sectors all lie below the cut is complete; partition scan keeps "
      "the partitions before the first unparsable header." + E2E + "whole AKAI (two partitions, two volumes, a file listed first but stored last) and S-770 images cut at solver-chosen positions, incl. inside a later partition's header, through the real entry points: "
      "every file stored before the cut is exported complete, every other exported file is a whole-frame prefix.", XT, "DESIGN.md 2/C15")

claim("C02", "For each of the 7 loop modes (and an out-of-table mode byte) the real SampleFile.to_generalized is run over RolandFile(symbolic cluster pair) over the "
      "data-area window over an abstract file and drained by the real encoder; z3 shows the PCM is words start..endpoint(mode) of the chain, reversed for "
      "modes 5/6, incl. data ending exactly on a cluster boundary. FAT decoding / get_file(cluster_top) share C07's obligations; the Pointer address "
      "lambdas and index validators of all five entry kinds, the entry adapter's FAT request, loop-point splitting, sample collection and frequency codes "
      "are separate obligations." + E2E + "whole S-770 images from the independent writer vf/rolandw.py (volume/performance/patch/partial/sample trees, "
      "FAT versions 1/2, permuted chains, cluster_top, all modes and frequency codes) exported through the real entry points and compared byte for byte.",
      XT + " (NpShim for reversal)", "DESIGN.md 2/C02")

claim("C09", "Byte-level container independence is decided symbolically: a read through the real MdfStream over the independently wrapped image returns the "
      "image's own bytes (histories, incl. the depth-4 nesting and reads across 2048-byte boundaries); the real MdxStream with a stubbed header (symbolic eof) "
      "exposes exactly the bytes behind the 64-byte header for every image length; the real determine_image_type / attempt_parse_cue_sheet choose wrapper and "
      "parser from the detector outcomes only, Roland/AKAI decided on the unwrapped stream; the mdf/mdx signature tests react only to signature bytes "
      "(one symbolic byte per position)." + E2E + "one AKAI / S-770 / CDDA image, bare and wrapped by independent MODE1/2352, MDF and MDX writers "
      "with solver-chosen tails: ls text and exported bytes are equal.", XT, "DESIGN.md 2/C09")

claim("C04", "Decided on the repository's own contribution to the file layout: the live Rebuild expressions for block align / byte rate on symbolic rate and "
      "channels; chunk order fmt,[smpl],data from the real encoder for every presence combination; one loop header per region with cue ids and the live "
      "loop-count Rebuild for symbolic loop tables; 16 / 36+24n byte struct sizes from the live structs; whole-frame blocks (C12, C03 obligations). The "
      "length prefixes themselves are written by construct.Prefixed (trusted) and are cross-checked by building real files for solver-chosen shapes and "
      "walking them with an independent RIFF reader and stdlib wave.", XT, "DESIGN.md 2/C04")

claim("C19", "PARTIAL. The FirFilter class (plain Python inside fir.pyx; also the base of the CDXtract and ChickenSys FIR presets' block handling) is cut out of "
      "the current .pyx text and executed symbolically on index-map arrays: for every tap count <= 8, delay, and 2-/3-block split z3 compares the window "
      "of input positions behind every output sample with the one-block run, the output count with the input count, and reset_state with a new filter; "
      "counterexamples are replayed on the compiled class. The int16 saturation helpers are translated from the .pyx text to QF_FP. The Cython kernels "
      "The CDXtract preset is checked with the taps and delay offset its live constructor passes on. The Cython kernels (IIR, ChickenSys convolution, circular buffer) are NOT APPLICABLE: no Cython and no C/LLVM model checker on this image.",
      XT + " on an index-map array stand-in; QF_FP for saturation", "DESIGN.md 2/C19",
      note=TRUST + " NOT covered (not applicable to this technique here): generic IirFilter, the three ChickenSys IIR presets, _c_chicken_sys_convolve_valid arithmetic. "
      "Known finding F9 (short blocks / 1-tap) is listed in known_findings.txt.")

ST = "bounded symbolic execution of the real string/regex code with symx (own z3-backed executor: char-array strings, live regexes compiled to formulas)"

claim("C06", "The real make_export_name is executed on a symbolic name (all strings up to the stated length over code points < 128): z3 shows every path "
      "component is non-empty, matches \\w[\\w\\-.#() ]*, has no trailing blank/dot and is not ./.. ; the real sanitize_names_general (+_add_count_to_name) "
      "on N symbolic sibling candidates assigns pairwise distinct names inside that language; the real combine_stereo_routine keeps N distinct names "
      "distinct except in the listed known-finding region (stem of a merged pair equals another name); joined components cannot leave the destination; "
      "and (CrossHair) every directory class - generic, AKAI image/volume, CDDA image, Roland performance/partial - applies both renaming routines to its "
      "children exactly once." + E2E + "whole AKAI volumes / Roland performances / cue sheets whose sibling names are drawn by the solver from classes of awkward names (L/R look-alikes, dots, separators, blanks, duplicates) go through the real entry points - as sample names and, one or two levels up, as Roland performance (also orphan) and AKAI / Roland volume names; every exported channel is traced back to its sample by content; paths are distinct, safe, inside the destination and as many as the Exported lines.", ST + "; CrossHair for the per-level routine obligations and the name images", "DESIGN.md 2/C06")

claim("C05", "The real combine_stereo_routine/combine_stereo run on N symbolic, pairwise distinct sibling names: z3 shows that exactly the pairs the statement "
      "defines (same name up to a final L/R preceded by blank or hyphen) are merged, with the L stream first whatever the order in the directory, named after "
      "the stem, and that every other sample passes through once and unchanged (channels add up to N, no stream twice). Channel placement of the two streams "
      "is decided by the stereo obligations of C11/C12; per-level hand-over by a CrossHair run of the real export_samples on stub trees." + E2E + "whole AKAI volumes / Roland performances / cue sheets whose sibling names are drawn by the solver from classes of awkward names (L/R look-alikes, dots, separators, blanks, duplicates) go through the real entry points; every exported channel is traced back to its sample by content and must be exactly the files the statement prescribes.",
      ST + "; CrossHair for level hand-over and interleaving", "DESIGN.md 2/C05")

claim("C10", "Symbolic raw sibling names go through the real make_safe_names_routine (the names ls prints) and the real parse_path (generic and AKAI token "
      "normalisation, live tokenising regex) on blanks+name+blanks[+separator+blanks]: z3 shows every non-blank printed name resolves to exactly its item; a "
      "two-level path with symbolic separators (/ \\ \\\\), blanks and trailing separator resolves to the leaf; an arbitrary symbolic path string either resolves "
      "or raises ErrorInvalidPath and nothing else; rendering of solver-chosen item shapes yields one line per leaf; ls_action prints exactly the not-found "
      "message." + E2E + "whole AKAI volumes / Roland performances / cue sheets whose sibling names are drawn by the solver from classes of awkward names (L/R look-alikes, dots, separators, blanks, duplicates) go through the real entry points - as sample names and, one or two levels up, as Roland performance (also orphan) and AKAI / Roland volume names; every printed row must resolve (5 spellings) to its own item, identified by a per-item header value, and corrupted paths must say not found.", ST + "; CrossHair for rendering, the ls action and the name images", "DESIGN.md 2/C10")

claim("C17", "Each live line regex is compiled to a z3 formula and shown to match a line with symbolic keyword casing and symbolic blank characters (run lengths "
      "enumerated) with the canonical line's groups, and lines starting with any other keyword to match none; an AST check shows cuesheet.py touches a line only "
      "through strip/len/those patterns. The real parse_cue_sheet is then run on solver-chosen canonical sheets (1..3 tracks, TITLE / second INDEX / data track "
      "presence) with one or two cosmetic lines inserted at every admissible position and with whole-sheet re-casing/re-indenting, and must return the "
      "canonical meaning; no FILE line / non-ASCII text is rejected and falls through to the binary detectors; parse_text_file is run over a file object with "
      "symbolic line lengths (documented readlines/read semantics) and must hand over every line.",
      ST + " for the line regexes; CrossHair decision-tree enumeration for whole sheets", "DESIGN.md 2/C17")

claim("C16", "Cursor independence is C11's inductive step; a second export from the same sample object is shown to yield "
      "the same bytes (real AKAI stack drained twice, symbolic geometry); the renaming routines are shown order- and repetition-independent on symbolic names "
      "(symx); lazy properties are realised once; and every history of up to 3 (quick) / 4 (thorough) ls/export operations on ONE image object (AKAI, S-770 and CDDA "
      "images from independent writers) is compared with fresh objects - histories are chosen by the solver's decision tree and are concrete per path, i.e. "
      "bounded exhaustive enumeration, said so in the evidence; an AST query shows every open() but export_wav's is read-only.",
      XT + "; symx for renaming; decision-tree enumeration for operation histories", "DESIGN.md 2/C16")

claim("C20", "Layouts: the live construct structs (AKAI sample header, loop entry, program header, velocity zone; Roland sample parameter and directory records) are "
      "walked into bit-vector models and z3 shows no record exists on which a field is read from other bytes / with another width, signedness or byte order "
      "than an independently transcribed format table says (walker validated against the real parser each run). Value adapters (loop entry arithmetic, active "
      "loop filtering, rate default, bool / loop-type / chain predicates) are executed symbolically on raw values. End to end, solver-chosen header values are "
      "serialised by an independent writer, parsed by the real parsers and the real ls text is parsed back (AKAI sample; AKAI program with 1..2 keygroups, 0..4 "
      "active zones, arbitrary next-keygroup addresses; Roland sample with width-class values in every loop point, all modes / frequency codes / "
      "FAT versions; CDDA track).",
      "construct-object -> z3 bit-vector layout model; " + XT + "; decision-tree enumeration for the ls round trip", "DESIGN.md 2/C20")

_pending = "check not built yet in this session (work in progress; see DESIGN.md section 2 for the planned obligations)"
for _p in ["C01","C02","C03","C04","C05","C06","C07","C09","C10","C11","C12","C13","C14","C15","C16","C17","C18","C19","C20"]:
    if _p not in CHECKS:
        NA[_p] = _pending
