# claim(pid, text, technique, design_ref) / NA[pid] = reason  -- read by gen_manifest.py
XT = "bounded symbolic execution of the real functions (CrossHair + z3), one solver-decided obligation per skeleton"

claim("C08", "Every view class (StreamOffset, FileStream/SectorStream, MdfStream, StreamReversed and the depth-4 nestings the tool builds) "
      "is executed symbolically on an abstract backing file; for every operation history of the stated length with all arguments, window "
      "geometry and sector numbers symbolic, z3 shows the results equal an independent read-only-file model, or returns a history that is replayed on io.BytesIO.",
      XT, "DESIGN.md 2/C08")

_pending = "check not built yet in this session (work in progress; see DESIGN.md section 2 for the planned obligations)"
for _p in ["C01","C02","C03","C04","C05","C06","C07","C09","C10","C11","C12","C13","C14","C15","C16","C17","C18","C19","C20"]:
    if _p not in CHECKS:
        NA[_p] = _pending
