#!/usr/bin/env python3
"""write seeded/<id>/meta.json from the tables in DESIGN.md section 10.5 and the files tools/collect_seed.sh left in each directory"""
import json
import os
import re

ROOT = os.path.dirname(os.path.dirname(os.path.abspath(__file__)))
rows = {}
for ln in open(os.path.join(ROOT, "DESIGN.md"), encoding="utf-8"):
    if not ln.startswith("| C") or ln.count("|") < 5:
        continue
    cells = [c.strip() for c in ln.strip().strip("|").split("|")]
    for key in cells[0].split(" / "):
        rows[key.strip()] = cells[1:]


def row_for(sid):
    if sid in rows:
        return rows[sid]
    for k, v in rows.items():                   # "C01-/C07-sat-branch-order" style keys and shortened ids
        m = re.match(r"(C\d\d)-/(C\d\d)-(.*)", k)
        if m and (sid.startswith(m.group(1) + "-" + m.group(3)) or sid.startswith(m.group(2) + "-" + m.group(3))):
            return v
        if sid.startswith(k):
            return v
    return None


def rd(p):
    try:
        return open(p, encoding="utf-8", errors="replace").read().strip()
    except OSError:
        return None


for sid in sorted(os.listdir(os.path.join(ROOT, "seeded"))):
    d = os.path.join(ROOT, "seeded", sid)
    if not os.path.isdir(d):
        continue
    r = row_for(sid)
    if r is None:
        print("no DESIGN row for", sid)
        continue
    pid = sid[:3]
    files = sorted(set(re.findall(r"^\+\+\+ b/(\S+)", rd(os.path.join(d, "patch.diff")) or "", re.M)))
    meta = {
        "seed": sid,
        "breaks_property": pid,
        "origin": "fresh sub-agent given only the text of property %s and a scratch worktree of /repo; nothing from /verif" % pid,
        "change": r[0],
        "files_changed": files,
        "needs_to_manifest": r[1],
        "caught_by": r[2],
        "what_was_run": {
            "existing_test_suite_with_change": rd(os.path.join(d, ".tests")),
            "demo_with_change (python demo.py, exit != 0 expected)": (rd(os.path.join(d, ".demo_with")) or "")[-600:],
            "demo_without_change (exit 0 expected)": (rd(os.path.join(d, ".demo_without")) or "")[-300:],
            "checks": "tools/try_seed.sh %s quick %s  (patch applied to a scratch worktree of /repo, ./check run with VF_REPO pointing at it): VIOLATION property=%s, exit 1" % (sid, pid, pid),
        },
        "ported": os.path.exists(os.path.join(d, "patch.orig.diff")) and "patch.diff is the sub-agent's patch.orig.diff re-ported onto the tree after the fix: commits (same change, shifted context)" or None,
    }
    with open(os.path.join(d, "meta.json"), "w") as f:
        json.dump(meta, f, indent=1)
        f.write("\n")
print("ok")
