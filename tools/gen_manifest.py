#!/usr/bin/env python3
"""regenerates /verif/MANIFEST.json from the table below (one entry per claimed property)"""
import json
import re as _re


def _fixes():
    import os
    p = os.path.join(os.path.dirname(os.path.dirname(os.path.abspath(__file__))), 'known_findings.txt')
    return [m.group(1) for m in (_re.match(r'fixed: property=\S+ ([0-9a-f]{7,})', ln) for ln in open(p)) if m]


import os
ROOT = os.path.dirname(os.path.dirname(os.path.abspath(__file__)))

TRUST = ("Trusted: CPython 3.12, z3 5.1, CrossHair 0.0.110's models of int/list/dict, the stubs listed in the evidence "
         "(AbsFile/Spans abstract file, NpShim index-map numpy, nondeterministic sub-parsers), construct 2.10 and numpy as "
         "libraries, and the glue named under 'out_of_claim' in the evidence. Bounds are stated per obligation in the evidence; "
         "nothing is claimed outside them.")

CHECKS = {}
NA = {}

def claim(pid, text, technique, ref, note=TRUST):
    CHECKS[pid] = dict(text=text, technique=technique, ref=ref, note=note)

exec(open(os.path.join(ROOT, "tools", "claims.py")).read())

props = [json.loads(l)["id"] for l in open(os.path.join(ROOT, "properties.jsonl"))]
m = {
    "version": 1,
    "setup_cmd": "./setup.sh",
    "hooks": {
        "guard": "SMPL_EXTRACT_VERIF",
        "enable": "no hooks are needed: the checks import the real modules from /repo (editable install) and rebind module globals inside their own worker processes; the guard variable is unused",
        "baseline_off_cmd": "cd /repo && /venv/bin/python -m pytest -ra -q -p no:cacheprovider --timeout=900 --continue-on-collection-errors",
        "source_commits": [],
        "add_only": True,
    },
    "engines": [
        {"name": "X: CrossHair 0.0.110 + z3 5.1 (Python API, one worker process per obligation)", "path": "vf/xworker.py",
         "serves_properties": sorted(CHECKS), "kind_free_text": "symbolic execution of the real Python functions, z3 decides every branch; bounded by pre-conditions"},
        {"name": "S: symx (own proxy-object symbolic executor over z3: bounded strings, regex compiled from the live patterns, QF_BVFP floats)", "path": "vf/symx.py",
         "serves_properties": [p for p in sorted(CHECKS) if "symx" in CHECKS[p]["technique"]], "kind_free_text": "symbolic execution with z3, DFS over branch decisions"},
    ],
    "checks": [],
    "not_applicable": [{"property_id": p, "reason": NA[p]} for p in props if p not in CHECKS],
    "notes": "All checks: ./check <ID> --tier quick|thorough. Exit 0 nothing found, 1 VIOLATION, 2 harness error. known findings: known_findings.txt. "
             "Unguarded fix: commits in /repo (one per repaired defect, listed as fixed: lines in known_findings.txt): " + ", ".join(_fixes()) + ". "
             "Seeded changes used to test the checks: seeded/<id>/ (patch.diff, demo.py, meta.json); tools/sweep_seeds.sh re-runs them.",
}
for p in props:
    if p not in CHECKS:
        assert p in NA, p
        continue
    c = CHECKS[p]
    m["checks"].append({
        "property_id": p,
        "quick_cmd": f"./check {p} --tier quick",
        "thorough_cmd": f"./check {p} --tier thorough",
        "evidence_file": f"evidence/{p}.json",
        "replay_cmd_template": f"./check {p} --replay {{path}}",
        "engine": "vf.run",
        "level_claimed": {"category": "model_checking", "text": c["text"], "design_ref": c["ref"]},
        "level_note": c["note"],
        "technique": c["technique"],
    })
json.dump(m, open(os.path.join(ROOT, "MANIFEST.json"), "w"), indent=1)
print("claimed", len(m["checks"]), "not_applicable", len(m["not_applicable"]))
