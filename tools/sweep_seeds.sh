#!/bin/sh
# tools/sweep_seeds.sh [pattern] : run the quick check of every seeded change's own property against it (scratch worktree, see try_seed.sh);
# prints one line per seed: CAUGHT / MISSED / HARNESS
cd /verif
for d in seeded/*${1}*/; do
  SID=$(basename $d); PID=$(echo $SID | cut -c1-3)
  OUT=$(tools/try_seed.sh $SID quick $PID 2>&1)
  RC=$(echo "$OUT" | grep "^exit=" | tail -1)
  if echo "$OUT" | grep -q "^VIOLATION property=$PID"; then echo "CAUGHT  $SID $RC"; elif [ "$RC" = "exit=2" ]; then echo "HARNESS $SID $RC"; else echo "MISSED  $SID $RC"; fi
done
