"""whole images whose sample names are chosen by the solver from classes of awkward names (end-to-end obligations C05.image, C06.image, C10.image).
Every sample gets its own audio (seed = position) and its own original key (36 + position), so that exported files and `ls` info can be traced
back to the item without trusting any name the code under test prints; all samples have the same length."""
import io
import re
import struct

# index -> raw name.  AKAI names are limited to the AKAI character set (12 characters), Roland names are 16 ASCII bytes.
AKAI_NAMES = ["PNO", "PNO L", "PNO R", "PNO -L", "PNO -R", "PNO  L", "PNO--R", "L", "R", " L", "-R", "...", ".", "", "-X", "#1", "+A", "PNO.", "PNO L.", "A.B", "PNO LL", "PNO L R", "A.C"]
ROLAND_NAMES = ["Pno", "Pno L", "Pno R", "Pno -L", "Pno -R", "Pno  L", "pno l", "L", " R", "../x", "a/b", "a\\b", "a b", "..", ".", "", "-x", "Pno.2", "Pno (2)", "Pno.", "Pno L.",
                "x" * 16, "Pno.1", "a:b", "'q'", "a\x01b", "Pno L (2)", "Pno R R"]


CDDA_TITLES = ["Song", "Song L", "Song R", "Song -L", "Song -R", "song l", "L", " R", "../x", "a/b", "a\\b", "a b", "..", ".", "", "-x", "Song No. 2", "Song (2)", "Song.", "Song L.",
               "x" * 40, "Song No. 1", "a:b", "'q'", "a\x01b", "Song  L", "Song   R", None]          # None: no TITLE line at all


def words(n, seed):
    return b"".join(struct.pack("<h", ((i * 7 + seed * 1000) % 60000) - 30000) for i in range(n))


NW = 40            # words per sample


def build(fmt, names, patch_name="Patch0", level=0):
    """-> (image bytes, directory path whose rows carry the names, export directory prefix)
    level 0: the names are sample names of one AKAI volume / Roland performance (or CDDA titles);
    level 1: Roland performances of one volume; level 2: Roland ORPHAN performances (listed under the pseudo-volume); level 3: AKAI / Roland volumes.
    For levels 1..3 directory i holds the sample "S<i>" (Roland: below patch "Pa<i>"), which is how a listing of it is recognised.
    level 4: like 3, but every volume holds the SAME inner names (performance "P", sample "S"): only the volume component tells the files apart."""
    if fmt == 2:
        return build_cdda(names), "", "out/"
    n = len(names)
    if fmt == 0:
        from vf import akaiw
        if level in (3, 4):
            sn = (lambda i: "S%d" % i) if level == 3 else (lambda i: "S")
            vols = [(nm, [(sn(i), 0xf3, akaiw.sample_file(sn(i), words(NW, i + 1), root=36 + i), None)], None) for i, nm in enumerate(names)]
            return akaiw.partition(vols, size_sectors=8 + 3 * n), "A:", "out/A/"
        files = [(nm, 0xf3, akaiw.sample_file(nm, words(NW, i + 1), root=36 + i), None) for i, nm in enumerate(names)]
        return akaiw.partition([("VOL", files, None)], size_sectors=8 + len(names)), "A:/VOL", "out/A/VOL/"
    from vf import rolandw
    smp = lambda i, nm: dict(name=nm, words=words(NW, i + 1), key=36 + i, mode=2, sustain_end=NW - 1, release_end=NW - 1)
    if level == 0:
        partials = [("Part%d" % j, list(range(4 * j, min(4 * j + 4, n)))) for j in range((n + 3) // 4)]
        model = {"volumes": [("VolA", [0])], "performances": [("Perf0", [0])], "patches": [(patch_name, list(range(len(partials))))], "partials": partials,
                 "samples": [smp(i, nm) for i, nm in enumerate(names)]}
        return rolandw.build(model), "VolA/Perf0", "out/VolA/Perf0/"
    model = {"patches": [("Pa%d" % i, [i]) for i in range(n)], "partials": [("Part%d" % i, [i]) for i in range(n)], "samples": [smp(i, "S%d" % i) for i in range(n)]}
    if level == 1:
        model.update(volumes=[("VolA", list(range(n)))], performances=[(nm, [i]) for i, nm in enumerate(names)])
        return rolandw.build(model), "VolA", "out/VolA/"
    if level == 2:
        model["patches"].append(("PaK", [n]))
        model["partials"].append(("PartK", [n]))
        model["samples"].append(smp(n, "SK"))
        model.update(volumes=[("VolA", [n])], performances=[(nm, [i]) for i, nm in enumerate(names)] + [("Keep", [n])])
        return rolandw.build(model), "_Orphan_perf", "out/_Orphan_perf/"
    if level == 4:
        model["samples"] = [smp(i, "S") for i in range(n)]
        model.update(volumes=[(nm, [i]) for i, nm in enumerate(names)], performances=[("P", [i]) for i in range(n)])
        return rolandw.build(model), "", "out/"
    model.update(volumes=[(nm, [i]) for i, nm in enumerate(names)], performances=[("P%d" % i, [i]) for i in range(n)])
    return rolandw.build(model), "", "out/"


def dir_of_listing(text, n):
    """which directory a listing shows, by the marker child it holds (S<i>, Pa<i> or P<i>); None if it shows none"""
    try:
        rows = listing_names(text)
    except ValueError:
        return None
    hits = set()
    for nm, _t in rows:
        for i in range(n):
            if nm in ("S%d" % i, "Pa%d" % i, "P%d" % i):
                hits.add(i)
    return hits.pop() if len(hits) == 1 else None


def build_cdda(titles):
    """-> (bin bytes, cue lines); track i is i + 1 sectors long (so that `ls` tells the tracks apart) and holds words(…, seed i + 1)"""
    bin_ = b"".join(words(1176 * (i + 1), i + 1) for i in range(len(titles)))
    cue = ['FILE "d.bin" BINARY\n']
    for i, t in enumerate(titles):
        cue.append("  TRACK %02d AUDIO\n" % (i + 1))
        if t is not None:
            cue.append('    TITLE "%s"\n' % t)
        cue.append("    INDEX 01 00:00:%02d\n" % (i * (i + 1) // 2))
    return bin_, cue


def open_image(img):
    import smpl_extract.actions as actions
    if isinstance(img, tuple):
        from smpl_extract.cuesheet import parse_cue_sheet
        from smpl_extract.cdda.image import CompactDiskAudioImageAdapter
        return CompactDiskAudioImageAdapter.from_bin_cue(io.BytesIO(img[0]), parse_cue_sheet(list(img[1])))
    return actions.determine_image_type(io.BufferedReader(io.BytesIO(img)))


def pcm_of(wav):
    """data chunk and channel count of a RIFF/WAVE file (independent reader)"""
    assert wav[:4] == b"RIFF" and wav[8:12] == b"WAVE"
    p, ch, data = 12, None, None
    while p + 8 <= len(wav):
        cid, n = wav[p:p + 4], struct.unpack("<I", wav[p + 4:p + 8])[0]
        body = wav[p + 8:p + 8 + n]
        if cid == b"fmt ":
            ch = struct.unpack("<H", body[2:4])[0]
        if cid == b"data":
            data = body
        p += 8 + n + (n & 1)
    return ch, data


def which_samples(fmt, names, ch, data):
    """the (position of the) samples whose audio makes up each channel of an exported file; None if a channel is nobody's audio"""
    if fmt == 2:                                   # a CDDA track is one stereo stream: the whole data chunk is one track's sector
        hit = [i for i in range(len(names)) if data == words(1176 * (i + 1), i + 1)]
        return [hit[0] if hit else None] * ch if ch == 2 else [None] * ch
    out = []
    for c in range(ch):
        chan = b"".join(data[i:i + 2] for i in range(2 * c, len(data), 2 * ch))
        hit = None
        for i in range(len(names)):
            if chan == words(NW, i + 1):
                hit = i
        out.append(hit)
    return out


SAFE_COMPONENT = re.compile(r"^\w[\w \-.#()]*$")


def component_ok(comp):
    return bool(comp) and SAFE_COMPONENT.match(comp) is not None and comp[-1] not in " ." and "\n" not in comp


def is_delim(c):
    return c.isspace() or c == "-"


def statement_pair(a, b):
    """C05's statement: names differ only in a final L / R preceded by spaces or hyphens (a = the L name, b = the R name)"""
    return len(a) == len(b) and len(a) >= 2 and a[-1] == "L" and b[-1] == "R" and a[:-1] == b[:-1] and is_delim(a[-2])


def stem(a):
    s = a[:-1]
    while s and is_delim(s[-1]):
        s = s[:-1]
    return s


NOTE = ["C", "C#", "D", "D#", "E", "F", "F#", "G", "G#", "A", "A#", "B"]


def listing_names(text):
    """names printed in the rows of a directory listing (the name column ends where the header's second column starts)"""
    lines = text.split("\n")
    col = lines[0].index("Type")
    return [(ln[:col].rstrip(), ln[col:].strip()) for ln in lines[2:] if ln.strip()]


def item_of_info(fmt, text, n):
    """which sample an `ls <item>` info block describes: by its original key (36 + position); None if it is no sample info"""
    if fmt == 2:
        m = re.search(r"^num_audio_samples\s*:\s*(\d+)", text, re.M)
        if m and int(m.group(1)) % 588 == 0 and 1 <= int(m.group(1)) // 588 <= n:
            return int(m.group(1)) // 588 - 1
        return None
    m = re.search(r"^(?:original_key|midi_root_note|root_note|original_pitch|note_pitch)\s*:\s*(\S+)", text, re.M)
    if not m:
        return None
    for i in range(n):
        for base in (-1, -2):                      # either octave numbering convention; positions are 12 apart at most for n <= 8
            k = 36 + i
            if m.group(1) == "%s%d" % (NOTE[k % 12], k // 12 + base):
                return i
    return None
