"""Independent AKAI S1000/S3000 image writer (logical model -> bytes), written from the published disk format, not from the parser.
Used by the end-to-end obligations (C01.image, C09.image, C15.image, C16.hist, C20.ls)."""
import struct

SECT = 8192
SAT_N = 11386
FREE, EOFM, RES = 0x0000, 0xC000, 0x4000
MAGIC = b"".join(struct.pack("<H", (3333 * i) & 0xFFFF) for i in range(1, 98))


def akai_str(s, n=12):
    out = []
    for ch in s.upper().ljust(n)[:n]:
        if ch.isdigit(): out.append(ord(ch) - 48)
        elif ch == " ": out.append(10)
        elif "A" <= ch <= "Z": out.append(ord(ch) - 65 + 11)
        else: out.append({"#": 37, "+": 38, "-": 39, ".": 40}[ch])
    return bytes(out)


def sample_file(name, words, rate=44100, start=0, end=None, root=60, loop_type=2, loops=()):
    """140-byte header + 16-bit words; `words` is a bytes object of even length.
    loop_type: 0 loop in release, 1 loop until release, 2 no loop, 3 play to end; loops: up to 8 (loop point, fine, length, time; time 9999 = hold)"""
    n = len(words) // 2
    end = n if end is None else end
    h = bytes([3, 0, root]) + akai_str(name) + bytes(4) + bytes([loop_type, 0, 0]) + bytes(4)
    table = b"".join(struct.pack("<IHIH", *lp) for lp in loops).ljust(8 * 12, b"\0")
    h += struct.pack("<III", n, start, end) + table + bytes(4) + struct.pack("<H", rate)
    assert len(h) == 140
    return h + words


def partition(volumes, size_sectors=64, dir_sectors=1, dir_linked=False, vol_type=1, first_free=3, layout=None):
    """volumes: list of (name, [(fname, ftype, filebytes, order or None[, "late"])], _).  A file marked "late" keeps its place in the
    directory but its sectors are handed out after everything else of the partition (directory order != physical order).
    dir_sectors / dir_linked: a volume directory of 1..2 sectors stored as a run of reserved-flag sectors or as a linked chain;
    first_free: first sector handed out (moves everything up, e.g. to leave free sectors below);
    layout: optional dict, filled with (volume name, file name) -> list of sectors holding the file, and (volume name, None) -> directory sectors."""
    sat = [FREE] * SAT_N
    data = {}                       # sector -> bytes
    for s in range(3):
        sat[s] = RES                # header sectors (reserved run, as on real discs)
    nxt = [first_free]

    def alloc(k):
        r = list(range(nxt[0], nxt[0] + k)); nxt[0] += k
        return r

    late_secs = {}
    total_early = first_free
    for (vname, files, _unused) in volumes:
        total_early += dir_sectors + (0 if dir_linked else 1) + sum(max(1, -(-len(f[2]) // SECT)) for f in files if len(f) < 5)
    late_next = total_early
    for (vname, files, _unused) in volumes:
        for f in files:
            if len(f) >= 5:
                k = max(1, -(-len(f[2]) // SECT))
                late_secs[(vname, f[0])] = list(range(late_next, late_next + k))
                late_next += k
    vol_entries = b""
    for (vname, files, _unused) in volumes:
        dsecs = alloc(dir_sectors)
        dsec = dsecs[0]
        if layout is not None:
            layout[(vname, None)] = list(dsecs)
        for i, d in enumerate(dsecs):
            if dir_linked:
                sat[d] = dsecs[i + 1] if i + 1 < len(dsecs) else EOFM
            else:
                sat[d] = RES
        if not dir_linked:
            nxt[0] += 1             # leave one free sector behind a reserved run so that the run ends there
        table = b""
        for f in files:
            (fname, ftype, fbytes, order) = f[:4]
            k = max(1, -(-len(fbytes) // SECT))
            secs = late_secs[(vname, fname)] if len(f) >= 5 else alloc(k)
            if order:                                 # permutation of the allocated sectors
                secs = [secs[i] for i in order]
            if layout is not None:
                layout[(vname, fname)] = list(secs)
            for i, s in enumerate(secs):
                data[s] = fbytes[i * SECT:(i + 1) * SECT].ljust(SECT, b"\0")
                sat[s] = secs[i + 1] if i + 1 < k else EOFM
            table += akai_str(fname) + bytes(4) + bytes([ftype]) + len(fbytes).to_bytes(3, "little") + struct.pack("<H", secs[0]) + bytes(2)
        table = table.ljust(SECT * dir_sectors, b"\0")
        for i, d in enumerate(dsecs):
            data[d] = table[i * SECT:(i + 1) * SECT]
        vol_entries += akai_str(vname) + struct.pack("<HH", vol_type, dsec)
    vol_entries = vol_entries.ljust(16 * 100, b"\0")
    hdr = struct.pack("<H", size_sectors) + b"\0\0" + MAGIC + bytes(2) + b"\x2f\x00"
    head = hdr + vol_entries + b"".join(struct.pack("<H", w) for w in sat)
    img = bytearray(size_sectors * SECT)
    img[:len(head)] = head
    if data and max(data) >= size_sectors:
        raise ValueError("partition too small for its files (sector %d, size %d)" % (max(data), size_sectors))
    for s, b in data.items():
        img[s * SECT:(s + 1) * SECT] = b
    return bytes(img)
