"""helpers shared by the CrossHair harnesses"""


def conc(x, lo, hi):
    """make a small symbolic int concrete on each path: one solver-decided fork per value, exhaustive over lo..hi"""
    for v in range(lo, hi + 1):
        if x == v:
            return v
    raise AssertionError("value outside the declared range")


class _Null:
    def __enter__(self):
        return self

    def __exit__(self, *a):
        return False


class _Native:
    """NoTracing plus: switch CrossHair's per-instruction sys.monitoring events off for the duration (Python >= 3.12), so that the concrete
    code inside runs at native speed instead of paying one (ignored) callback per bytecode; restored on exit."""

    def __enter__(self):
        import sys
        from crosshair.tracers import NoTracing
        self.nt = NoTracing()
        self.nt.__enter__()
        self.mon = None
        try:
            from crosshair.tracers import SYS_MONITORING_TOOL_ID as tid
            ev = sys.monitoring.get_events(tid)
            if ev:
                sys.monitoring.set_events(tid, 0)
                self.mon = (tid, ev)
        except Exception:
            self.mon = None
        return self

    def __exit__(self, *a):
        import sys
        if self.mon:
            sys.monitoring.set_events(*self.mon)
            sys.monitoring.restart_events()
        return self.nt.__exit__(*a)


def untraced():
    """context manager: run fully concrete code at native speed inside a CrossHair harness (no-op outside CrossHair)"""
    try:
        from crosshair.tracers import is_tracing
        if is_tracing():
            return _Native()
    except Exception:
        pass
    return _Null()


_PRISTINE = {}


def fresh_class_state(*classes):
    """give every class-level mutable container (dict / list / set attribute) of the classes under analysis the value it had at import
    time.  A harness body is re-executed once per explored path inside ONE process; state the code keeps on a class would otherwise leak
    from one path into the next (a fresh process per run is what the tool really sees)."""
    import copy
    for cls in classes:
        for klass in cls.__mro__:
            if klass.__module__.split(".")[0] != "smpl_extract":
                continue
            key = klass
            if key not in _PRISTINE:
                _PRISTINE[key] = {k: copy.deepcopy(v) for k, v in vars(klass).items() if isinstance(v, (dict, list, set))}
            for k, v in _PRISTINE[key].items():
                setattr(klass, k, copy.deepcopy(v))
