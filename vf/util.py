"""helpers shared by the CrossHair harnesses"""


def conc(x, lo, hi):
    """make a small symbolic int concrete on each path: one solver-decided fork per value, exhaustive over lo..hi"""
    for v in range(lo, hi + 1):
        if x == v:
            return v
    raise AssertionError("value outside the declared range")


class _Null:
    def __enter__(self):
        return self

    def __exit__(self, *a):
        return False


def untraced():
    """context manager: run fully concrete code at native speed inside a CrossHair harness (no-op outside CrossHair)"""
    try:
        from crosshair.tracers import NoTracing, is_tracing
        if is_tracing():
            return NoTracing()
    except Exception:
        pass
    return _Null()
