"""helpers shared by the CrossHair harnesses"""


def conc(x, lo, hi):
    """make a small symbolic int concrete on each path: one solver-decided fork per value, exhaustive over lo..hi"""
    for v in range(lo, hi + 1):
        if x == v:
            return v
    raise AssertionError("value outside the declared range")
