"""known findings (/verif/known_findings.txt), never written at run time.

finding: property=<id> obligation=<obligation name> when=<python predicate over the harness arguments> :: <what fails>
fixed:   property=<id> <commit> <what failed>          (suppresses nothing)

For every `finding:` line the runner (a) adds `not (<when>)` as a pre-condition to the named obligation, so
that any *other* counterexample of that obligation is still a VIOLATION, and (b) runs the obligation once
more restricted to `<when>`; a reproduced counterexample there prints KNOWN-FINDING and is not an alarm.
For engine-P obligations `when` is passed to the harness as params["exclude"] / params["only"].
"""
import os
import fnmatch
import re

ROOT = os.path.dirname(os.path.dirname(os.path.abspath(__file__)))
FILE = os.path.join(ROOT, "known_findings.txt")


def load(pid):
    out = []
    if not os.path.exists(FILE):
        return out
    for ln in open(FILE):
        ln = ln.strip()
        if not ln.startswith("finding:"):
            continue
        m = re.match(r"finding:\s+property=(\S+)\s+obligation=(\S+)\s+when=(.*?)\s+::\s+(.*)$", ln)
        if not m:
            raise SystemExit("malformed known_findings line: " + ln)
        if m.group(1) == pid:
            out.append({"property": m.group(1), "obligation": m.group(2), "when": m.group(3), "what": m.group(4)})
    return out


def partition(obs, findings):
    extra = []
    for f in findings:
        for o in obs:
            if o["name"] == f["obligation"] or fnmatch.fnmatchcase(o["name"], f["obligation"]):
                if o.get("engine", "X") == "X":
                    fo = dict(o, name=o["name"] + "@known", finding=f,
                              extra_pre=list(o.get("extra_pre", [])) + [f["when"]], twin=False)
                    o["extra_pre"] = list(o.get("extra_pre", [])) + ["not (" + f["when"] + ")"]
                else:
                    fo = dict(o, name=o["name"] + "@known", finding=f,
                              params=dict(o.get("params") or {}, only=f["when"]), twin=False)
                    o["params"] = dict(o.get("params") or {})
                    o["params"].setdefault("exclude", [])
                    o["params"]["exclude"] = list(o["params"]["exclude"]) + [f["when"]]
                extra.append(fo)
    return obs, extra
