"""Verification framework for smpl_extract: solver-based checking of the real code (see DESIGN.md)."""
