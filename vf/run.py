"""check runner:  python -m vf.run <PROPERTY-ID> --tier quick|thorough [--replay file] [--only substr]

A property module `vf.props.<id>` provides
    META = {"assumptions": [...], "trusted": [...], "out_of_claim": [...]}
    obligations(tier, seed) -> [obligation dict]
An obligation dict:
    name       unique id, "<PID>.<kernel>/<region>"
    engine     "X" (CrossHair/z3 on the real functions)  |  "P" (python entry point returning a result dict:
               used by the symx (S) and layout (L) engines, which drive z3 themselves)
    module, func, [extra_pre], [setup, setup_args], timeout
    runs       ["pkg.mod:qualname", ...] real functions executed (hashed into the evidence)
    sym, bound, stubs, assumes   free text for the evidence
    twin       default True: also run the reachability twin
Exit status: 0 nothing found, 1 VIOLATION printed, 2 harness error (vacuous obligation, counterexample that does
not replay, crashed worker).
"""
import argparse
import concurrent.futures as cf
import hashlib
import importlib
import inspect
import json
import os
import subprocess
import sys
import time

from vf import known

ROOT = os.path.dirname(os.path.dirname(os.path.abspath(__file__)))
PY = sys.executable
JOBS = int(os.environ.get("VF_JOBS", "16"))


def _worker(spec, hard_timeout):
    env = dict(os.environ)
    env["PYTHONPATH"] = (os.environ["VF_REPO"] + os.pathsep if os.environ.get("VF_REPO") else "") + ROOT + os.pathsep + env.get("PYTHONPATH", "")
    env.setdefault("PYTHONHASHSEED", "0")
    env.pop("VF_REAL", None)
    if spec.get("mode") == "replay":
        env["VF_REAL"] = "1"
    mod = "vf.xworker" if spec.get("engine", "X") == "X" else "vf.pworker"
    t0 = time.time()
    try:
        p = subprocess.run([PY, "-m", mod, json.dumps(spec)], cwd=ROOT, env=env, capture_output=True,
                           text=True, timeout=hard_timeout)
    except subprocess.TimeoutExpired:
        return {"verdict": "inconclusive", "messages": [{"state": "HARD_TIMEOUT", "message": ""}],
                "paths": 0, "queries": 0, "solver_s": 0.0, "wall_s": round(time.time() - t0, 1)}
    for line in reversed(p.stdout.splitlines()):
        if line.startswith("@@VF@@"):
            out = json.loads(line[6:])
            out.setdefault("wall_s", round(time.time() - t0, 1))
            return out
    return {"verdict": "harness_error", "messages": [{"state": "CRASH", "message": (p.stderr or p.stdout)[-2000:]}],
            "paths": 0, "queries": 0, "solver_s": 0.0, "wall_s": round(time.time() - t0, 1)}


def _src_hash(ref):
    try:
        modname, qual = ref.split(":")
        obj = importlib.import_module(modname)
        for part in qual.split("."):
            obj = getattr(obj, part)
        try:
            src = inspect.getsource(obj)
        except (TypeError, OSError):
            src = repr(obj)
        return hashlib.sha1(src.encode()).hexdigest()[:12]
    except Exception as e:
        return "unresolved(%s)" % type(e).__name__


def decide(ob):
    """run one obligation (and, for a refutation, its concrete replay). returns a record."""
    spec = {k: ob[k] for k in ("engine", "module", "func", "extra_pre", "setup", "setup_args", "timeout",
                                "params", "path_timeout") if k in ob}
    spec["twin"] = ob.get("is_twin", False)
    res = _worker(spec, ob["timeout"] * 1.5 + 60)
    rec = {"name": ob["name"], "engine": ob.get("engine", "X"), "verdict": res.get("verdict"),
           "paths": res.get("paths", 0), "queries": res.get("queries", 0), "solver_s": res.get("solver_s", 0.0),
           "wall_s": res.get("wall_s", 0.0), "messages": res.get("messages", []), "cex": res.get("cex"),
           "cex_message": res.get("cex_message"), "extra": res.get("extra"), "cex_state": res.get("cex_state")}
    if ob.get("is_twin") and rec["verdict"] == "refuted" and rec["cex_state"] in ("EXEC_ERR", "POST_ERR"):
        # the twin ran into an exception instead of reaching the end: that is the main obligation's business
        rec["verdict"] = "twin_exception"
        return rec
    if rec["verdict"] == "refuted":
        if ob.get("engine", "X") == "X":
            if rec["cex"] and "args" in rec["cex"]:
                rspec = dict(spec, mode="replay", args=rec["cex"])
                rr = _worker(rspec, 300)
                rec["replay"] = rr
                if ob.get("is_twin"):
                    rec["reproduced"] = rr.get("result") == 1
                else:
                    # an exception counts as a reproduction when the code under analysis raised it; one raised by the harness's own
                    # lines (a stub that no longer fits a refactored module, an internal assertion) is a harness error, never a verdict
                    rec["reproduced"] = (rr.get("exception") is not None and rr.get("origin") != "harness") or (rr.get("result") != 1 and "result" in rr)
            else:
                rec["replay"] = {"error": "could not parse counterexample"}
                rec["reproduced"] = False
        else:
            rec["replay"] = res.get("replay")
            rec["reproduced"] = bool(res.get("reproduced"))
    return rec


def main(argv=None):
    ap = argparse.ArgumentParser()
    ap.add_argument("pid")
    ap.add_argument("--tier", default=os.environ.get("VERIF_TIER", "quick"), choices=["quick", "thorough"])
    ap.add_argument("--replay")
    ap.add_argument("--only", default=None)
    ap.add_argument("--list", action="store_true")
    a = ap.parse_args(argv)
    pid = a.pid.upper()
    seed = int(os.environ.get("VERIF_SEED", "0") or 0)
    t0 = time.time()
    pm = importlib.import_module("vf.props." + pid.lower())

    if a.replay:
        return replay_file(a.replay)

    obs = pm.obligations(a.tier, seed)
    if a.only:
        obs = [o for o in obs if a.only in o["name"]]
    scale = float(os.environ.get("VF_TIMEOUT_SCALE", "1.6"))      # head-room: budgets were measured on an otherwise idle machine
    for o in obs:
        o.setdefault("engine", "X")
        o.setdefault("timeout", 120)
        o["timeout"] = int(o["timeout"] * scale)
    findings = known.load(pid)
    obs, finding_obs = known.partition(obs, findings)
    jobs = []
    for o in obs + finding_obs:
        jobs.append(o)
        if o.get("twin", True) and not o.get("finding"):
            t = dict(o, name=o["name"] + "#twin", is_twin=True, timeout=min(o["timeout"], 120))
            jobs.append(t)
    if a.list:
        for j in jobs:
            print(j["name"], j.get("extra_pre", ""), j.get("params", ""))
        return 0
    # longest first, seed only permutes ties
    order = sorted(range(len(jobs)), key=lambda i: (-jobs[i]["timeout"], (i * 7919 + seed) % 104729))
    recs = {}
    with cf.ThreadPoolExecutor(max_workers=JOBS) as ex:
        futs = {ex.submit(decide, jobs[i]): i for i in order}
        for f in cf.as_completed(futs):
            i = futs[f]
            recs[jobs[i]["name"]] = f.result()
            r = recs[jobs[i]["name"]]
            if os.environ.get("VF_VERBOSE"):
                print(f"  [{r['verdict']:12}] {r['name']}  paths={r['paths']} q={r['queries']} {r['wall_s']}s", flush=True)

    violations, harness_errors, known_lines, notes = [], [], [], []
    os.makedirs(os.path.join(ROOT, "replays", pid), exist_ok=True)
    ob_by_name = {j["name"]: j for j in jobs}
    n_ob = n_dis = n_inc = 0
    witnesses = 0
    for name, r in recs.items():
        ob = ob_by_name[name]
        if ob.get("is_twin"):
            if r["verdict"] == "refuted" and r.get("reproduced"):
                witnesses += 1
            elif r["verdict"] == "refuted":
                harness_errors.append(f"{name}: reachability witness does not replay as OK on the concrete stubs: {str(r.get('replay'))[:400]}")
            elif r["verdict"] in ("discharged", "pre_unsat"):
                harness_errors.append(f"{name}: obligation is vacuous (end of harness unreachable)")
            elif r["verdict"] == "harness_error":
                harness_errors.append(f"{name}: {r['messages']}")
            else:
                notes.append(f"{name}: twin {r['verdict']}")
            continue
        n_ob += 1
        if ob.get("finding"):
            fd = ob["finding"]
            if r["verdict"] == "refuted" and r.get("reproduced"):
                known_lines.append(f"KNOWN-FINDING: property={pid} {fd['what']} (obligation {fd['obligation']}, region {fd['when']}; e.g. {json.dumps(r.get('cex'))[:300]})")
                n_dis += 0
            elif r["verdict"] == "refuted":
                harness_errors.append(f"{name}: counterexample in known-finding region does not replay: {r.get('replay')}")
            elif r["verdict"] == "discharged":
                notes.append(f"{name}: no violation inside the listed finding's region under this obligation's bounds (region discharged)")
                n_dis += 1
            elif r["verdict"] == "harness_error":
                harness_errors.append(f"{name}: {r['messages']}")
            else:
                n_inc += 1
            continue
        if r["verdict"] == "discharged":
            n_dis += 1
        elif r["verdict"] == "refuted":
            if r.get("reproduced"):
                path = os.path.join(ROOT, "replays", pid, name.replace("/", "_").replace("#", "_") + ".json")
                with open(path, "w") as fh:
                    json.dump({"property": pid, "obligation": name, "found_by": "solver", "spec": {
                        k: ob[k] for k in ("engine", "module", "func", "extra_pre", "setup", "setup_args", "params") if k in ob},
                        "counterexample": r.get("cex"), "message": r.get("cex_message"), "replay": r.get("replay")}, fh, indent=1)
                violations.append((name, path, r))
            else:
                harness_errors.append(f"{name}: solver counterexample does not reproduce on the real code: cex={r.get('cex')} msg={str(r.get('cex_message'))[:300]} replay={str(r.get('replay'))[:300]}")
        elif r["verdict"] in ("pre_unsat",):
            harness_errors.append(f"{name}: pre-condition unsatisfiable")
        elif r["verdict"] == "harness_error":
            harness_errors.append(f"{name}: {r['messages']}")
        else:
            n_inc += 1
            notes.append(f"{name}: inconclusive {[m['state'] for m in r['messages']]}")

    wall = time.time() - t0
    meta = getattr(pm, "META", {})
    mains = [j for j in jobs if not j.get("is_twin")]
    fn_refs = sorted({f for j in mains for f in j.get("runs", [])})
    samples = []
    for j in mains[:6]:
        r = recs[j["name"]]
        samples.append({"obligation": j["name"], "engine": j.get("engine"), "harness": j["module"] + ":" + j["func"],
                        "extra_pre": j.get("extra_pre", []), "params": j.get("params"), "sym": j.get("sym"),
                        "bound": j.get("bound"), "verdict": r["verdict"], "paths": r["paths"], "queries": r["queries"],
                        "solver_s": r["solver_s"],
                        "twin_witness": (recs.get(j["name"] + "#twin") or {}).get("cex")})
    ev = {
        "property_id": pid, "tier": a.tier, "seed": seed, "level": "model_checking",
        "coverage": {
            "states": max(1, sum(r["paths"] for r in recs.values())),
            "transitions": max(1, sum(r["queries"] for r in recs.values())),
            "traces_validated_against_impl": witnesses + sum(1 for _n, _p, _r in violations),
            "samples": samples,
            "obligations": n_ob, "discharged": n_dis, "inconclusive": n_inc,
            "refuted": len(violations), "known_findings": len(known_lines),
            "exhaustive": False,
            "explanation": "states = executions of harness bodies (one per explored path); transitions = z3 check() calls; "
                           "every obligation is decided by the solver over all values inside its stated bound; "
                           "traces_validated = twin witnesses / counterexamples replayed on the concrete stubs and real code",
            "solver_seconds": round(sum(r["solver_s"] for r in recs.values()), 2),
            "functions_encoded": {f: _src_hash(f) for f in fn_refs},
            "per_obligation": [{"name": j["name"], "verdict": recs[j["name"]]["verdict"], "paths": recs[j["name"]]["paths"],
                                "queries": recs[j["name"]]["queries"], "solver_s": recs[j["name"]]["solver_s"],
                                "wall_s": recs[j["name"]]["wall_s"], "bound": j.get("bound"), "sym": j.get("sym"),
                                "stubs": j.get("stubs"), "assumes": j.get("assumes"),
                                "twin": (recs.get(j["name"] + "#twin") or {}).get("verdict")} for j in mains],
            "out_of_claim": meta.get("out_of_claim", []),
            "notes": notes, "harness_errors": harness_errors, "known_finding_lines": known_lines,
            "checker_cmd": "./check %s --tier %s" % (pid, a.tier),
            "trusted_base": meta.get("trusted", []),
        },
        "assumptions": meta.get("assumptions", []),
        "wall_s": round(wall, 1),
        "violations": len(violations),
    }
    evdir = os.environ.get("VF_EVIDENCE_DIR") or os.path.join(ROOT, "evidence")     # (runs against a modified scratch tree write elsewhere)
    os.makedirs(evdir, exist_ok=True)
    with open(os.path.join(evdir, pid + ".json"), "w") as fh:
        json.dump(ev, fh, indent=1, default=str)

    print(f"{pid} {a.tier}: obligations={n_ob} discharged={n_dis} inconclusive={n_inc} refuted={len(violations)} "
          f"known={len(known_lines)} witnesses={witnesses} paths={ev['coverage']['states']} "
          f"queries={ev['coverage']['transitions']} solver_s={ev['coverage']['solver_seconds']} wall={wall:.0f}s")
    for n in notes:
        print("note:", n)
    for k in known_lines:
        print(k)
    for (name, path, r) in violations:
        print(f"  {name}: {r.get('cex_message') or r.get('cex')}")
        print(f"VIOLATION property={pid} replay={path}")
    for h in harness_errors:
        print("HARNESS-ERROR:", h)
    if violations:
        return 1
    if harness_errors:
        return 2
    return 0


def replay_file(path):
    d = json.load(open(path))
    spec = dict(d["spec"], mode="replay", args=d.get("counterexample"))
    if spec.get("engine", "X") != "X":
        spec["params"] = dict(spec.get("params") or {}, replay=d.get("counterexample"))
    rr = _worker(spec, 600)
    print(json.dumps(rr, indent=1)[:4000])
    bad = rr.get("exception") is not None or rr.get("result") != 1
    if bad:
        print(f"VIOLATION property={d['property']} replay={path}")
        return 1
    return 0


if __name__ == "__main__":
    sys.exit(main())
