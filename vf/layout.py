"""engine L: walks LIVE construct objects and extracts, for every leaf numeric field of a fixed-layout struct,
(dotted name, byte offset, width, signed, byte order) - the 'bytes -> raw field values' model of the struct as it is defined NOW."""
import construct as C
from construct import core


class Unsupported(Exception):
    pass


def _unwrap(sc):
    """strip wrappers that do not change which bytes are read; returns (inner, adapters)"""
    ad = []
    while True:
        if isinstance(sc, core.Compiled):
            sc = sc.defersubcon
            continue
        if isinstance(sc, core.Renamed):
            sc = sc.subcon
            continue
        if isinstance(sc, (core.Adapter, core.Default, core.Rebuild, core.Validator)) and not isinstance(sc, core.Padded):
            ad.append(type(sc).__name__)
            sc = sc.subcon
            continue
        if type(sc).__name__ in ("Transformed", "Restreamed", "Bitwise") and hasattr(sc, "subcon"):
            return sc, ad
        return sc, ad


def walk(sc, base=0, prefix="", out=None, ctx_counts=None, inherited=()):
    """-> list of dict(name, offset, width, signed, order, adapters); returns size consumed"""
    out = [] if out is None else out
    name = getattr(sc, "name", None)
    inner, ad = _unwrap(sc)
    ad = list(inherited) + ad          # adapters wrapped around an enclosing Struct/Array apply to every leaf below it
    full = prefix + (name or "")
    if isinstance(inner, core.Struct):
        off = base
        for sub in inner.subcons:
            off += walk(sub, off, (full + ".") if full else "", out, ctx_counts, ad)[1]
        return out, off - base
    if isinstance(inner, core.FormatField):
        fmt = inner.fmtstr
        order = {"<": "little", ">": "big", "=": "native"}[fmt[0]]
        code = fmt[1]
        out.append(dict(name=full, offset=base, width=inner.length, signed=code in "bhlq", order=order, adapters=ad, float=code in "efd"))
        return out, inner.length
    if isinstance(inner, core.BytesInteger):
        ln = inner.length
        if callable(ln):
            raise Unsupported("BytesInteger with computed length")
        out.append(dict(name=full, offset=base, width=ln, signed=bool(inner.signed), order="little" if inner.swapped else "big", adapters=ad, float=False))
        return out, ln
    if isinstance(inner, core.Padded) or isinstance(inner, core.FixedSized):
        ln = inner.length
        if callable(ln):
            raise Unsupported("computed padding")
        tname = type(getattr(inner, "subcon", None)).__name__
        out.append(dict(name=full or "(padding)", offset=base, width=ln, signed=False, order="bytes", adapters=ad + [tname], float=False, opaque=True))
        return out, ln
    if isinstance(inner, core.Array):
        cnt = inner.count
        if callable(cnt):
            if ctx_counts and full in ctx_counts:
                cnt = ctx_counts[full]
            else:
                raise Unsupported("Array with computed count: " + full)
        off = base
        for i in range(cnt):
            sub_out, sz = walk(inner.subcon, off, "", [], ctx_counts, ad)
            for f in sub_out:
                f["name"] = "%s[%d]%s" % (full, i, ("." + f["name"]) if f["name"] else "")
                out.append(f)
            off += sz
        return out, off - base
    if isinstance(inner, (core.Computed, core.Tell.__class__, core.Pass.__class__)) or type(inner).__name__ in ("Computed", "Tell", "Pass", "SubStreamConstruct", "Seek"):
        return out, 0
    if isinstance(inner, core.Const):
        ln = inner.subcon.sizeof()
        out.append(dict(name=full or "(const)", offset=base, width=ln, signed=False, order="bytes", adapters=ad + ["Const"], float=False, opaque=True))
        return out, ln
    if isinstance(inner, core.Bytes):
        ln = inner.length
        out.append(dict(name=full or "(bytes)", offset=base, width=ln, signed=False, order="bytes", adapters=ad, float=False, opaque=True))
        return out, ln
    if isinstance(inner, core.StringEncoded):
        ln = inner.sizeof()
        out.append(dict(name=full, offset=base, width=ln, signed=False, order="bytes", adapters=ad + ["string"], float=False, opaque=True))
        return out, ln
    if type(inner).__name__ in ("Transformed", "Restreamed"):
        ln = inner.sizeof()
        out.append(dict(name=full, offset=base, width=ln, signed=False, order="bits", adapters=ad + ["bitwise"], float=False, opaque=True))
        return out, ln
    raise Unsupported("%s (%s)" % (type(inner).__name__, full))


def fields(struct_, **kw):
    out, size = walk(struct_, 0, "", [], kw.get("counts"))
    return out, size
