"""`symx` (engine S): proxy-object symbolic execution over z3 with bounded strings, a regex compiler and IEEE floats.

The real functions of /repo are executed on these proxies (see `instrument`); every undecided branch is decided by z3.  Strings: capacity m, chars BitVec(8), length Int.
Regex: compiled from the live pattern's sre_parse tree into position-indexed guards with
backtracking priority (ordered alternatives), so that match()/sub() pick what CPython's `re` picks.
"""
import ast
import inspect
import re
import re._parser as P
import re._constants as K
import textwrap
import time
import z3

BW = 8
MAXCP = 128          # alphabet bound: code points < 128


def bv(x):
    return x if z3.is_bv(x) else z3.BitVecVal(x, BW)


# ---------------------------------------------------------------- explorer
class Explorer:
    def __init__(self):
        self.solver = z3.Solver()
        self.queries = 0
        self.solver_s = 0.0
        self.paths = 0
        self.subpaths = 0
        self.lits = []
        self.unknown = 0

    def check(self, *extra):
        t0 = time.time()
        r = self.solver.check(*extra)
        self.solver_s += time.time() - t0
        self.queries += 1
        if r == z3.unknown:
            self.unknown += 1            # never treated as unsat: the obligation becomes inconclusive
        return r

    def decide(self, cond):
        cond = z3.simplify(cond)
        if z3.is_true(cond):
            return True
        if z3.is_false(cond):
            return False
        k = len(self.trace)
        if k < len(self.plan):
            choice = self.plan[k]
        else:
            can_t = self.check(cond) != z3.unsat
            can_f = self.check(z3.Not(cond)) != z3.unsat
            if can_t and can_f:
                self.work.append(self.trace + [False])
                choice = True
            elif can_t:
                choice = True
            elif can_f:
                choice = False
            else:
                raise Infeasible()
        self.trace.append(choice)
        lit = cond if choice else z3.Not(cond)
        self.lits.append(lit)
        self.solver.add(lit)
        return choice

    def summarize(self, thunk):
        """explore all paths of a side-effect-free call under the current path condition and merge the results"""
        saved = (self.plan, self.trace, self.work, self.lits)
        self.work = [[]]
        results = []
        while self.work:
            self.plan = self.work.pop()
            self.trace = []
            self.lits = []
            self.solver.push()
            try:
                r = thunk()
                results.append((z3.And(self.lits) if self.lits else z3.BoolVal(True), r))
            except Infeasible:
                pass
            self.solver.pop()
        self.plan, self.trace, self.work, self.lits = saved
        self.subpaths += len(results)
        return merge_strs(results)

    def explore(self, body, base_constraints=()):
        """body() runs the code under analysis and returns a z3 Bool 'violation' (or None)."""
        self.work = [[]]
        results = []
        while self.work:
            self.plan = self.work.pop()
            self.trace = []
            self.lits = []
            self.solver.push()
            for c in base_constraints:
                self.solver.add(c)
            try:
                viol = body()
                self.paths += 1
                if viol is not None:
                    viol = z3.simplify(viol)
                    if not z3.is_false(viol) and self.check(viol) == z3.sat:
                        results.append(self.solver.model())
                        self.solver.pop()
                        return results
            except Infeasible:
                pass
            except (NotImplementedError, TypeError, AttributeError, z3.Z3Exception):
                self.solver.pop()
                raise                                    # an operation symx does not model: the caller reports 'inconclusive'
            except Exception as e:                       # noqa: the code under analysis raised on this (feasible) path: a counterexample
                self.paths += 1
                if self.check() == z3.sat:
                    self.raised = "%s: %s" % (type(e).__name__, str(e)[:200])
                    results.append(self.solver.model())
                    self.solver.pop()
                    return results
            self.solver.pop()
        return results


class Infeasible(Exception):
    pass


EX = Explorer()


class SymBool:
    def __init__(self, e):
        self.e = e

    def __bool__(self):
        return EX.decide(self.e)


def as_bool(x):
    return x.e if isinstance(x, SymBool) else z3.BoolVal(bool(x))


class SymInt:
    def __init__(self, e):
        self.e = e

    def _o(self, o):
        return o.e if isinstance(o, SymInt) else z3.IntVal(o)

    def __le__(self, o): return SymBool(self.e <= self._o(o))
    def __lt__(self, o): return SymBool(self.e < self._o(o))
    def __ge__(self, o): return SymBool(self.e >= self._o(o))
    def __gt__(self, o): return SymBool(self.e > self._o(o))
    def __eq__(self, o): return SymBool(self.e == self._o(o))
    def __ne__(self, o): return SymBool(self.e != self._o(o))
    def __hash__(self): return 0


# ---------------------------------------------------------------- strings
def is_space(c):
    c = bv(c)
    return z3.Or(c == 32, z3.And(z3.UGE(c, 9), z3.ULE(c, 13)), z3.And(z3.UGE(c, 28), z3.ULE(c, 31)))


_WORD = [cp for cp in range(MAXCP) if re.match(r"\w", chr(cp))]
_DIGIT = [cp for cp in range(MAXCP) if re.match(r"\d", chr(cp))]
_SPACE = [cp for cp in range(MAXCP) if re.match(r"\s", chr(cp))]


def in_set(c, cps):
    """membership in a concrete code-point set, as a union of ranges"""
    c = bv(c)
    cps = sorted(cps)
    rs, i = [], 0
    while i < len(cps):
        j = i
        while j + 1 < len(cps) and cps[j + 1] == cps[j] + 1:
            j += 1
        rs.append((cps[i], cps[j]))
        i = j + 1
    return z3.Or([z3.And(z3.UGE(c, a), z3.ULE(c, b)) if a != b else c == a for a, b in rs]) if rs else z3.BoolVal(False)


class SymStr:
    def __init__(self, chars, n):
        self.c = [bv(x) for x in chars]
        self.n = n if z3.is_expr(n) else z3.IntVal(n)

    @staticmethod
    def lift(s):
        if isinstance(s, SymStr):
            return s
        return SymStr([ord(ch) for ch in s], len(s))

    @property
    def m(self):
        return len(self.c)

    def at(self, idx):
        """char at symbolic index (0 if out of range)"""
        r = z3.BitVecVal(0, BW)
        for i in reversed(range(self.m)):
            r = z3.If(idx == i, self.c[i], r)
        return r

    def eq(self, o):
        o = SymStr.lift(o)
        m = max(self.m, o.m)
        parts = [self.n == o.n]
        for i in range(m):
            a = self.c[i] if i < self.m else z3.BitVecVal(0, BW)
            b = o.c[i] if i < o.m else z3.BitVecVal(0, BW)
            parts.append(z3.Or(i >= self.n, a == b))
        return z3.And(parts)

    def __eq__(self, o):
        if not isinstance(o, (str, SymStr)):
            return NotImplemented
        return SymBool(self.eq(o))

    def __ne__(self, o):
        return SymBool(z3.Not(self.eq(o)))

    def __hash__(self):
        return 0

    def __bool__(self):
        return EX.decide(self.n > 0)                     # truthiness of a str: non-empty (decided by the solver, forks)

    def __add__(self, o):
        o = SymStr.lift(o)
        m = self.m + o.m
        out = []
        for j in range(m):
            a = self.c[j] if j < self.m else z3.BitVecVal(0, BW)
            out.append(z3.simplify(z3.If(j < self.n, a, o.at(j - self.n))))
        return SymStr(out, z3.simplify(self.n + o.n))

    def __radd__(self, o):
        return SymStr.lift(o) + self

    def strip(self):
        m = self.m
        lead = self.n
        for i in reversed(range(m)):
            lead = z3.If(z3.And(i < self.n, z3.Not(is_space(self.c[i]))), i, lead)
        last = z3.IntVal(-1)
        for i in range(m):
            last = z3.If(z3.And(i < self.n, z3.Not(is_space(self.c[i]))), i, last)
        newn = z3.If(last < 0, 0, last - lead + 1)
        return SymStr([self.at(lead + j) for j in range(m)], newn)

    def __getitem__(self, i):
        if isinstance(i, int):
            idx = self.n + i if i < 0 else z3.IntVal(i)
            return SymStr([self.at(idx)], 1)
        raise TypeError("symx: unsupported index")

    def concrete(self, model):
        n = model.eval(self.n, model_completion=True).as_long()
        return "".join(chr(model.eval(ch, model_completion=True).as_long()) for ch in self.c[:n])


def sym_len(x):
    if isinstance(x, SymStr):
        return SymInt(x.n)
    return len(x)


# ---------------------------------------------------------------- regex
class SymMatch:
    def __init__(self, ok, s, caps):
        self.ok, self.s, self.caps = ok, s, caps      # caps: gid -> (start Int, end Int)

    def __bool__(self):
        return EX.decide(self.ok)

    def group(self, g):
        a, b = self.caps[g]
        return SymStr([self.s.at(a + j) for j in range(self.s.m)], b - a)


class SymPattern:
    def __init__(self, pattern, flags=0):
        self.pattern, self.flags = pattern, flags
        self.tree = P.parse(pattern, flags)
        self.icase = bool(self.tree.state.flags & re.I)
        self.real = re.compile(pattern, flags)

    # -- character tests
    def _cls(self, items, c):
        neg = False
        alts = []
        for op, av in items:
            if op is K.NEGATE:
                neg = True
            elif op is K.LITERAL:
                alts.append(self._lit(av, c))
            elif op is K.RANGE:
                alts.append(self._range(av[0], av[1], c))
            elif op is K.CATEGORY:
                alts.append(self._cat(av, c))
            else:
                raise NotImplementedError(op)
        r = z3.Or(alts) if alts else z3.BoolVal(False)
        return z3.Not(r) if neg else r

    def _lit(self, cp, c):
        if self.icase and chr(cp).swapcase() != chr(cp):
            return z3.Or(c == cp, c == ord(chr(cp).swapcase()))
        return c == cp

    def _range(self, a, b, c):
        cps = set(range(a, min(b, MAXCP - 1) + 1))
        if self.icase:
            cps |= {ord(chr(x).swapcase()) for x in cps if len(chr(x).swapcase()) == 1 and ord(chr(x).swapcase()) < MAXCP}
        return in_set(c, cps)

    def _cat(self, cat, c):
        table = {K.CATEGORY_WORD: _WORD, K.CATEGORY_DIGIT: _DIGIT, K.CATEGORY_SPACE: _SPACE}
        ntable = {K.CATEGORY_NOT_WORD: _WORD, K.CATEGORY_NOT_DIGIT: _DIGIT, K.CATEGORY_NOT_SPACE: _SPACE}
        if cat in table:
            return in_set(c, table[cat])
        return z3.Not(in_set(c, ntable[cat]))

    def _single(self, op, av, c):
        """guard for a one-character item, or None"""
        if op is K.LITERAL:
            return self._lit(av, c)
        if op is K.NOT_LITERAL:
            return z3.Not(self._lit(av, c))
        if op is K.ANY:
            return c != 10
        if op is K.IN:
            return self._cls(av, c)
        return None

    # -- ordered alternatives: list of (guard, end, caps)
    def _item(self, s, op, av, i):
        m = s.m
        g = None
        if i < m:
            g = self._single(op, av, s.c[i])
        if op in (K.LITERAL, K.NOT_LITERAL, K.ANY, K.IN):
            return [(z3.And(i < s.n, g), i + 1, {})] if i < m else []
        if op is K.SUBPATTERN:
            gid, _a, _d, items = av
            out = []
            for (gg, j, caps) in self._seq(s, list(items), 0, i, False):
                caps = dict(caps)
                if gid is not None:
                    caps[gid] = (i, j)
                out.append((gg, j, caps))
            return out
        if op is K.BRANCH:
            out = []
            for alt in av[1]:
                out += self._seq(s, list(alt), 0, i, False)
            return out
        if op in (K.MAX_REPEAT, K.MIN_REPEAT):
            lo, hi, items = av
            items = list(items)
            greedy = op is K.MAX_REPEAT

            def rep(k, pos, guard, caps):
                stop = [(guard, pos, caps)] if k >= lo else []
                more = []
                if k < hi:
                    for (gg, j, cc) in self._seq(s, items, 0, pos, False):
                        if j == pos:
                            continue
                        g2 = z3.simplify(z3.And(guard, gg))
                        if z3.is_false(g2):
                            continue                     # pruned: cannot match here (concrete characters decide most guards)
                        more += rep(k + 1, j, g2, {**caps, **cc})
                return more + stop if greedy else stop + more
            return rep(0, i, z3.BoolVal(True), {})
        if op is K.AT:
            if av is K.AT_END:
                last_nl = z3.And(s.n == i + 1, s.c[i] == 10) if i < m else z3.BoolVal(False)
                return [(z3.Or(s.n == i, last_nl), i, {})]
            if av is K.AT_BEGINNING:
                return [(z3.BoolVal(i == 0), i, {})]
            raise NotImplementedError(av)
        if op is K.ASSERT_NOT:
            direction, items = av
            items = list(items)
            if direction == -1 and len(items) == 1 and i >= 0:
                if i == 0:
                    return [(z3.BoolVal(True), i, {})]
                g1 = self._single(items[0][0], items[0][1], s.c[i - 1])
                if g1 is not None:
                    return [(z3.Not(g1), i, {})]
            raise NotImplementedError("lookaround")
        raise NotImplementedError(op)

    def _accepts(self, s, items, idx, i, memo):
        """priority-free: can items[idx:] match starting at i (any end)?  used for capture-free tails"""
        key = (idx, i)
        if key in memo:
            return memo[key]
        if idx == len(items):
            r = z3.BoolVal(True)
        else:
            op, av = items[idx]
            r = z3.Or([z3.And(g, self._accepts(s, items, idx + 1, j, memo)) for (g, j, _c) in self._item(s, op, av, i)] or [z3.BoolVal(False)])
        memo[key] = r
        return r

    @staticmethod
    def _has_group(items):
        for op, av in items:
            if op is K.SUBPATTERN:
                return True
            if op in (K.MAX_REPEAT, K.MIN_REPEAT) and SymPattern._has_group(list(av[2])):
                return True
            if op is K.BRANCH and any(SymPattern._has_group(list(a)) for a in av[1]):
                return True
        return False

    def _seq(self, s, items, idx, i, top):
        if idx == len(items):
            return [(z3.BoolVal(True), i, {})]
        if top and idx > 0 and not self._has_group(items[idx:]):
            # capture-free tail: only its acceptance matters (the end position is not used by match/group)
            return [(self._accepts(s, items, idx, i, {}), -1, {})]
        out = []
        op, av = items[idx]
        for (g, j, caps) in self._item(s, op, av, i):
            g = z3.simplify(g)
            if z3.is_false(g):
                continue
            for (g2, j2, caps2) in self._seq(s, items, idx + 1, j, top):
                gg = z3.simplify(z3.And(g, g2))
                if z3.is_false(gg):
                    continue
                out.append((gg, j2, {**caps, **caps2}))
        return out

    # -- API
    def match(self, s):
        if isinstance(s, str):
            return self.real.match(s)
        alts = self._seq(s, list(self.tree), 0, 0, True)
        ok = z3.Or([g for (g, _j, _c) in alts]) if alts else z3.BoolVal(False)
        gids = sorted({g for (_g, _j, c) in alts for g in c})
        caps = {}
        for gid in gids:
            a = z3.IntVal(0)
            b = z3.IntVal(0)
            for (g, _j, c) in reversed(alts):
                if gid in c:
                    a = z3.If(g, c[gid][0], a)
                    b = z3.If(g, c[gid][1], b)
            caps[gid] = (a, b)
        return SymMatch(ok, s, caps)

    def search(self, s):
        """leftmost match starting at any position (priority: smaller start first, then the pattern's own alternative order)"""
        if isinstance(s, str):
            return self.real.search(s)
        alts = []
        for i in range(s.m + 1):
            for (g, j, c) in self._seq(s, list(self.tree), 0, i, False):
                alts.append((z3.And(i <= s.n, g), j, c, i))
        ok = z3.Or([g for (g, _j, _c, _i) in alts]) if alts else z3.BoolVal(False)
        gids = sorted({g for (_g, _j, c, _i) in alts for g in c})
        caps = {}
        for gid in gids:
            a = z3.IntVal(0)
            b = z3.IntVal(0)
            for (g, _j, c, _i) in reversed(alts):
                if gid in c:
                    a = z3.If(g, c[gid][0], a)
                    b = z3.If(g, c[gid][1], b)
                else:
                    a = z3.If(g, 0, a)
                    b = z3.If(g, 0, b)
            caps[gid] = (a, b)
        return SymMatch(ok, s, caps)

    def fullmatch(self, s):
        if isinstance(s, str):
            return self.real.fullmatch(s)
        alts = [(z3.And(g, j == s.n), j, c) for (g, j, c) in self._seq(s, list(self.tree), 0, 0, False)]
        ok = z3.Or([g for (g, _j, _c) in alts]) if alts else z3.BoolVal(False)
        gids = sorted({g for (_g, _j, c) in alts for g in c})
        caps = {}
        for gid in gids:
            a = z3.IntVal(0)
            b = z3.IntVal(0)
            for (g, _j, c) in reversed(alts):
                if gid in c:
                    a = z3.If(g, c[gid][0], a)
                    b = z3.If(g, c[gid][1], b)
            caps[gid] = (a, b)
        return SymMatch(ok, s, caps)

    def sub(self, repl, s):
        if isinstance(s, str):
            return self.real.sub(repl, s)
        assert isinstance(repl, str) and "\\" not in repl
        assert self.tree.getwidth()[0] >= 1
        m = s.m
        cur = z3.IntVal(0)
        pieces = []          # (guard, [chars])
        for i in range(m):
            alts = self._seq(s, list(self.tree), 0, i, False)
            has = z3.Or([g for (g, _j, _c) in alts]) if alts else z3.BoolVal(False)
            end = z3.IntVal(i + 1)
            for (g, j, _c) in reversed(alts):
                end = z3.If(g, j, end)
            active = z3.And(cur == i, i < s.n)
            pieces.append((z3.And(active, has), [bv(ord(ch)) for ch in repl]))
            pieces.append((z3.And(active, z3.Not(has)), [s.c[i]]))
            cur = z3.If(active, z3.If(has, end, i + 1), cur)
        cap = m * max(1, len(repl))
        off = z3.IntVal(0)
        placed = []
        for (g, chars) in pieces:
            for k, ch in enumerate(chars):
                placed.append((g, off + k, ch))
            off = z3.If(g, off + len(chars), off)
        out = []
        for j in range(cap):
            r = z3.BitVecVal(0, BW)
            for (g, o, ch) in reversed(placed):
                r = z3.If(z3.And(g, o == j), ch, r)
            out.append(r)
        return SymStr(out, off)


class ReShim:
    """stands in for the module global `re` of the module under analysis"""
    def __getattr__(self, name):
        return getattr(re, name)

    @staticmethod
    def match(pattern, s, flags=0):
        return SymPattern(pattern, flags).match(s)

    @staticmethod
    def compile(pattern, flags=0):
        return SymPattern(pattern, flags)

    @staticmethod
    def search(pattern, s, flags=0):
        return SymPattern(pattern, flags).search(s)

    @staticmethod
    def fullmatch(pattern, s, flags=0):
        return SymPattern(pattern, flags).fullmatch(s)

    @staticmethod
    def sub(pattern, repl, s, count=0, flags=0):
        if count:
            raise NotImplementedError("re.sub with count")
        return SymPattern(pattern, flags).sub(repl, s)

    @staticmethod
    def split(pattern, s, maxsplit=0, flags=0):
        if maxsplit:
            raise NotImplementedError("re.split with maxsplit")
        return SymPattern(pattern, flags).split(s)


# ---------------------------------------------------------------- running real functions
class _Rewrite(ast.NodeTransformer):
    def visit_Call(self, node):
        self.generic_visit(node)
        if isinstance(node.func, ast.Name) and node.func.id == "len":
            node.func = ast.Name("__symx_len", ast.Load())
        return node


def instrument(fn, namespace_overrides):
    """re-compile fn's *current source* with len() routed through the shim, in fn's own module namespace"""
    src = textwrap.dedent(inspect.getsource(fn))
    tree = _Rewrite().visit(ast.parse(src))
    ast.fix_missing_locations(tree)
    ns = dict(fn.__globals__)
    ns.update(namespace_overrides)
    ns["__symx_len"] = sym_len
    exec(compile(tree, inspect.getsourcefile(fn), "exec"), ns)
    return ns[fn.__name__]


# ---------------------------------------------------------------- join / str shims (added for the uniqueness probe)
def sym_join(sep, items):
    items = list(items)
    if isinstance(sep, str) and all(isinstance(x, str) for x in items):
        return sep.join(items)
    out = None
    for x in items:
        if out is None:
            out = SymStr.lift(x)
        else:
            out = out + sep + x
    return out if out is not None else ""


class _Rewrite2(_Rewrite):
    def visit_Call(self, node):
        node = super().visit_Call(node)
        if isinstance(node.func, ast.Attribute) and node.func.attr == "join" and len(node.args) == 1:
            return ast.Call(ast.Name("__symx_join", ast.Load()), [node.func.value, node.args[0]], [])
        return node


def instrument(fn, namespace_overrides):  # noqa: F811  (supersedes the len()-only variant above)
    src = textwrap.dedent(inspect.getsource(fn))
    tree = _Rewrite2().visit(ast.parse(src))
    ast.fix_missing_locations(tree)
    ns = dict(fn.__globals__)
    ns.update(namespace_overrides)
    ns["__symx_len"] = sym_len
    ns["__symx_join"] = sym_join
    exec(compile(tree, inspect.getsourcefile(fn), "exec"), ns)
    return ns[fn.__name__]


def merge_strs(results):
    rs = [(g, SymStr.lift(r)) for g, r in results]
    m = max(r.m for _g, r in rs)
    g0, r0 = rs[-1]
    chars = [(r0.c[i] if i < r0.m else z3.BitVecVal(0, BW)) for i in range(m)]
    n = r0.n
    for g, r in reversed(rs[:-1]):
        chars = [z3.If(g, (r.c[i] if i < r.m else z3.BitVecVal(0, BW)), chars[i]) for i in range(m)]
        n = z3.If(g, r.n, n)
    return SymStr(chars, n)


_SUMMARY_CACHE = {}


def summarized(fn):
    def wrapper(*a, **k):
        key = (fn, tuple(id(x) if isinstance(x, SymStr) else x for x in a[1:]))
        if key not in _SUMMARY_CACHE:
            # computed without the caller's path condition: valid on every path (keeps the args alive too)
            EX.solver.push()
            saved = EX.solver.assertions()
            EX.solver.pop()
            _SUMMARY_CACHE[key] = (EX.summarize(lambda: fn(*a, **k)), a)
        return _SUMMARY_CACHE[key][0]
    return wrapper


# ---------------------------------------------------------------- additions for the parse_path probe
def _slice(self, a, b):
    """s[a:b] with concrete a >= 0 and b concrete or a z3 Int (clipped to the length)"""
    b = b if z3.is_expr(b) else z3.IntVal(b)
    hi = z3.If(b < self.n, b, self.n)
    n = z3.If(hi - a < 0, 0, hi - a)
    return SymStr([self.c[a + j] for j in range(self.m - a)] or [0], n) if a < self.m else SymStr([0], 0)


def _getitem(self, i):
    if isinstance(i, int):
        idx = self.n + i if i < 0 else z3.IntVal(i)
        return SymStr([self.at(idx)], 1)
    if isinstance(i, slice) and i.step is None:
        a = i.start or 0
        assert isinstance(a, int) and a >= 0
        if i.stop is None:
            return _slice(self, a, self.n)
        if isinstance(i.stop, int) and i.stop < 0:
            return _slice(self, a, self.n + i.stop)
        return _slice(self, a, i.stop)
    raise TypeError("symx: unsupported index")


def _upper(self):
    return SymStr([z3.If(z3.And(z3.UGE(c, 97), z3.ULE(c, 122)), c - 32, c) for c in self.c], self.n)


SymStr.__getitem__ = _getitem
SymStr.upper = _upper
SymStr.__format__ = lambda self, spec: "<sym>"
SymStr.__str__ = lambda self: "<sym>"


def _split(self, s):
    """re.split with capture groups; forks on where separators are (list length must be concrete)"""
    if isinstance(s, str):
        return self.real.split(s)
    assert self.tree.getwidth()[0] >= 1
    out, seg, pos = [], 0, 0
    for i in range(s.m):
        if i < pos:
            continue
        if not EX.decide(i < s.n):
            break
        alts = self._seq(s, list(self.tree), 0, i, False)
        hit = None
        for (g, j, caps) in alts:
            if EX.decide(g):
                hit = (j, caps)
                break
        if hit is None:
            continue
        j, caps = hit
        out.append(_slice(s, seg, i))
        for gid in sorted(caps):
            a, b = caps[gid]
            out.append(_slice(s, a, b))
        pos = seg = j
    out.append(_slice(s, seg, s.n))
    return out


SymPattern.split = _split


instrument2 = instrument


# ---------------------------------------------------------------- numbers: machine-width ints and IEEE doubles
F64 = z3.Float64()
RNE = z3.RNE()
IW = 32


class SymI:
    """signed integer of small magnitude carried as a 32-bit bit-vector (enters floating point via fpSignedToFP)"""

    def __init__(self, e):
        self.e = e

    @staticmethod
    def lift(o):
        if isinstance(o, SymI):
            return o
        if isinstance(o, bool) or not isinstance(o, int):
            raise TypeError("SymI: cannot lift %r" % (o,))
        return SymI(z3.BitVecVal(o, IW))

    def __add__(self, o):
        if isinstance(o, float) or isinstance(o, SymF):
            return self.to_float() + o
        return SymI(self.e + SymI.lift(o).e)

    __radd__ = __add__

    def __sub__(self, o):
        if isinstance(o, float) or isinstance(o, SymF):
            return self.to_float() - o
        return SymI(self.e - SymI.lift(o).e)

    def __rsub__(self, o):
        if isinstance(o, float):
            return SymF.lift(o) - self.to_float()
        return SymI(SymI.lift(o).e - self.e)

    def __mul__(self, o):
        if isinstance(o, float) or isinstance(o, SymF):
            return self.to_float() * o
        return SymI(self.e * SymI.lift(o).e)

    __rmul__ = __mul__

    def to_float(self):
        return SymF(z3.fpSignedToFP(RNE, self.e, F64))

    def __eq__(self, o):
        if isinstance(o, (float, SymF)):
            return self.to_float() == o
        return SymBool(self.e == SymI.lift(o).e)

    def __ne__(self, o):
        return SymBool(z3.Not((self == o).e))

    def __lt__(self, o): return SymBool(self.e < SymI.lift(o).e)
    def __le__(self, o): return SymBool(self.e <= SymI.lift(o).e)
    def __gt__(self, o): return SymBool(self.e > SymI.lift(o).e)
    def __ge__(self, o): return SymBool(self.e >= SymI.lift(o).e)
    def __hash__(self): return 0


class SymF:
    """IEEE-754 binary64 with CPython semantics: + - * / round-to-nearest-even, round() = round-half-even to int"""

    def __init__(self, e):
        self.e = e

    @staticmethod
    def lift(o):
        if isinstance(o, SymF):
            return o
        if isinstance(o, SymI):
            return o.to_float()
        if isinstance(o, (int, float)) and not isinstance(o, bool):
            return SymF(z3.FPVal(float(o), F64))
        raise TypeError("SymF: cannot lift %r" % (o,))

    def __add__(self, o): return SymF(z3.fpAdd(RNE, self.e, SymF.lift(o).e))
    __radd__ = __add__
    def __sub__(self, o): return SymF(z3.fpSub(RNE, self.e, SymF.lift(o).e))
    def __rsub__(self, o): return SymF(z3.fpSub(RNE, SymF.lift(o).e, self.e))
    def __mul__(self, o): return SymF(z3.fpMul(RNE, self.e, SymF.lift(o).e))
    __rmul__ = __mul__
    def __truediv__(self, o): return SymF(z3.fpDiv(RNE, self.e, SymF.lift(o).e))
    def __rtruediv__(self, o): return SymF(z3.fpDiv(RNE, SymF.lift(o).e, self.e))
    def __eq__(self, o): return SymBool(z3.fpEQ(self.e, SymF.lift(o).e))
    def __ne__(self, o): return SymBool(z3.Not(z3.fpEQ(self.e, SymF.lift(o).e)))
    def __lt__(self, o): return SymBool(z3.fpLT(self.e, SymF.lift(o).e))
    def __le__(self, o): return SymBool(z3.fpLEQ(self.e, SymF.lift(o).e))
    def __gt__(self, o): return SymBool(z3.fpGT(self.e, SymF.lift(o).e))
    def __ge__(self, o): return SymBool(z3.fpGEQ(self.e, SymF.lift(o).e))
    def __hash__(self): return 0

    def __round__(self, nd=None):
        if nd is not None:
            raise NotImplementedError("round(x, n)")
        r = z3.fpRoundToIntegral(RNE, self.e)
        return SymI(z3.fpToSBV(z3.RTZ(), r, z3.BitVecSort(IW)))


def reset():
    """fresh explorer (one per obligation)"""
    global EX
    EX = Explorer()
    _SUMMARY_CACHE.clear()
    return EX


# ---------------------------------------------------------------- obligation driver (engine "P" entry points use this)
def run_obligation(body, base, describe, replay, twin=False, timeout=120):
    """explore all paths of `body` under `base`; body returns a z3 Bool 'violation' (or None).
    describe(model) -> JSON-able counterexample; replay(cex) -> True iff the violation shows on the real code.
    twin=True: reachability twin - reports 'refuted' (with a witness that replays as NOT violating) iff some path
    reaches the end of the body."""
    import time as _t
    ex = reset()
    ex.solver.set("timeout", int(timeout * 1000))
    t0 = _t.time()
    out = {"paths": 0, "queries": 0, "solver_s": 0.0, "messages": []}
    try:
        if twin:
            reached = {}

            def tbody():
                v = body()
                # end reached on this path: a model of the path condition on which the assertion HOLDS is the witness
                return z3.BoolVal(True) if v is None else z3.Not(v)
            res = ex.explore(tbody, base)
            if res:
                cex = describe(res[0])
                ok = not replay(cex)
                out.update(verdict="refuted", cex=cex, cex_message="witness " + repr(cex)[:400], reproduced=ok,
                           replay={"violates_on_real_code": not ok})
            else:
                out.update(verdict="discharged")
        else:
            res = ex.explore(body, base)
            if res:
                cex = describe(res[0])
                if getattr(ex, "raised", None):
                    cex["raised_under_symx"] = ex.raised
                try:
                    rep = replay(cex)
                except Exception as e:                   # the real code raises on the concrete input: reproduced
                    rep = True
                    cex["raised_on_real_code"] = "%s: %s" % (type(e).__name__, str(e)[:200])
                out.update(verdict="refuted", cex=cex, cex_message=repr(cex)[:600], reproduced=bool(rep), replay={"reproduced": bool(rep)})
            else:
                out.update(verdict="discharged")
    except (NotImplementedError, TypeError, AttributeError) as e:
        # an operation on a proxy that symx does not model (never silently treated as holding)
        import traceback as _tb
        out.update(verdict="inconclusive", messages=[{"state": "UNSUPPORTED", "message": (repr(e) + " @ " + _tb.format_exc()[-400:])[:700]}])
    except z3.Z3Exception as e:
        out.update(verdict="inconclusive", messages=[{"state": "Z3", "message": repr(e)[:300]}])
    if getattr(ex, "unknown", 0):
        if out.get("verdict") == "discharged":
            out["verdict"] = "inconclusive"
        out["messages"].append({"state": "UNKNOWN", "message": "%d solver queries returned unknown" % ex.unknown})
    out.update(paths=ex.paths, queries=ex.queries, solver_s=round(ex.solver_s, 3), wall_s=round(_t.time() - t0, 2))
    return out
