"""Worker for engine-P obligations (symx / layout / hand-built z3 queries): imports the module, calls
func(**params) which drives z3 itself and returns a result dict
  {"verdict": discharged|refuted|inconclusive|pre_unsat|harness_error, "paths", "queries", "solver_s",
   "cex", "cex_message", "reproduced", "replay", "messages"}.
With spec["twin"] the function is called with twin=True and must return verdict "refuted" + reproduced=True
when the end of the harness is reachable."""
import importlib
import json
import os
import sys
import time
import traceback


def main():
    arg = sys.argv[1]
    spec = json.loads(open(arg).read()) if os.path.exists(arg) else json.loads(arg)
    t0 = time.time()
    try:
        mod = importlib.import_module(spec["module"])
        fn = getattr(mod, spec["func"])
        params = dict(spec.get("params") or {})
        if spec.get("twin"):
            params["twin"] = True
        params.setdefault("timeout", spec.get("timeout", 120))
        out = fn(**params)
    except Exception as e:
        out = {"verdict": "harness_error", "messages": [{"state": "CRASH", "message": traceback.format_exc()[-3000:]}]}
    out.setdefault("paths", 0)
    out.setdefault("queries", 0)
    out.setdefault("solver_s", 0.0)
    out.setdefault("messages", [])
    out["wall_s"] = round(time.time() - t0, 2)
    sys.stdout.flush()
    print("\n@@VF@@" + json.dumps(out, default=str))


if __name__ == "__main__":
    main()
