"""C04 — every exported file is a structurally valid RIFF/WAVE PCM file.

The nested length prefixes are produced by construct.Prefixed (third-party, C-level I/O): trusted, and exercised by C04.riff.
Decided on the repository's own code:
  C04.fmt     the two Rebuild expressions of the live WavFormatChunkStruct on symbolic rate/channels: block align, byte rate
  C04.order   real WavSampleAdapter._encode: chunk list is fmt, [smpl], data - for symbolic presence of note/pitch/loops
  C04.smpl    real get_smpl_chunk_data on symbolic loop tables: one loop header per region not skipped, cue ids, and the live
              Rebuild(sample_loop_cnt) = len(sample_loops); fixed part 36 bytes + 24 per loop from the live structs
  C04.frames  = C12 obligations (every block a whole number of frames), C03.drain
  C04.riff    real WavSampleBuilder.build on small samples whose shape parameters are chosen by the solver (then concrete), walked by an
              independent RIFF reader and by stdlib wave
"""
import io
import struct
import wave
from construct import Container
from smpl_extract.formats.wav import (WavFormatChunkStruct, WavSampleChunkStruct, WavLoopStruct, RiffStruct, WavRiffChunkType)
from smpl_extract.generalized.wav import WavSampleAdapter, get_smpl_chunk_data, get_fmt_chunk_data, WavSampleBuilder
from smpl_extract.generalized.sample import Sample, LoopRegion, LoopType, combine_stereo
from smpl_extract.data_streams import DataStream, StreamEncoding, Endianess
from smpl_extract.midi import MidiNote
from vf.util import conc, untraced
from vf.props import c12, c03

CNT = [0]


def _sub(struct_, name):
    st = getattr(struct_, "defersubcon", struct_)
    for sc in st.subcons:
        if sc.name == name:
            return sc.subcon
    raise KeyError(name)


def h_fmt(rate: int, ch: int, bits: int) -> int:
    """
    pre: 0 <= rate <= 0xFFFFFFFF and 1 <= ch <= 8 and (bits == 8 or bits == 16 or bits == 32)
    post: _ == 1
    """
    CNT[0] += 1
    ctx = Container(audio_format=1, channel_cnt=ch, sample_rate=rate, bits_per_sample=bits)
    br = _sub(WavFormatChunkStruct, "byte_rate").func(ctx)
    ba = _sub(WavFormatChunkStruct, "block_align").func(ctx)
    if ba != ch * (bits // 8):
        return 0
    if br != rate * ba:
        return 0
    return 1


class _Stream:
    def read(self, n):
        return b""

    def seek(self, off, whence=0):
        return 0


def _sample(nch, note, semi, cents, loops):
    enc = StreamEncoding(endianess=Endianess.LITTLE, sample_width=2, num_interleaved_channels=1)
    return Sample(name="x", num_channels=nch, sample_rate=44100, data_streams=[DataStream(_Stream(), enc) for _ in range(nch)],
                  midi_note=note, pitch_offset_semi=semi, pitch_offset_cents=cents, loop_regions=loops)


def h_order(nch: int, has_note: int, has_semi: int, has_cents: int, nloops: int) -> int:
    """
    pre: 1 <= nch <= 2 and 0 <= has_note <= 1 and 0 <= has_semi <= 1 and 0 <= has_cents <= 1 and 0 <= nloops <= 2
    post: _ == 1
    """
    CNT[0] += 1
    nch, nloops = conc(nch, 1, 2), conc(nloops, 0, 2)
    s = _sample(nch, MidiNote.from_string("C4") if has_note == 1 else None, 0 if has_semi == 1 else None,
                0 if has_cents == 1 else None, [LoopRegion(1, 5) for _ in range(nloops)])
    cont = WavSampleAdapter(RiffStruct)._encode(s, {}, "")
    ids = [c["riff_id"] for c in cont["data"]["chunks"]]
    want_smpl = has_note == 1 or has_semi == 1 or has_cents == 1 or nloops > 0
    want = [WavRiffChunkType.FMT] + ([WavRiffChunkType.SMPL] if want_smpl else []) + [WavRiffChunkType.DATA]
    if ids != want:
        return 0
    fmt = cont["data"]["chunks"][0]["data"]
    if fmt["channel_cnt"] != nch or fmt["bits_per_sample"] != 16 or fmt["audio_format"] != 1 or fmt["sample_rate"] != 44100:
        return 0
    return 1


def h_smpl(n: int, s0: int, e0: int, p0: int, f0: int, s1: int, e1: int, p1: int, f1: int, s2: int, e2: int, p2: int, f2: int) -> int:
    """
    pre: 0 <= n <= 3
    pre: 0 <= s0 <= 10**6 and 0 <= e0 <= 10**6 and -1 <= p0 <= 1000 and 0 <= f0 <= 1
    pre: 0 <= s1 <= 10**6 and 0 <= e1 <= 10**6 and -1 <= p1 <= 1000 and 0 <= f1 <= 1
    pre: 0 <= s2 <= 10**6 and 0 <= e2 <= 10**6 and -1 <= p2 <= 1000 and 0 <= f2 <= 1
    post: _ == 1
    """
    CNT[0] += 1
    n = conc(n, 0, 3)
    spec = [(s0, e0, p0, f0), (s1, e1, p1, f1), (s2, e2, p2, f2)][:n]
    loops = []
    for (s, e, p, f) in spec:
        # play_cnt given (p >= 0) or absent; "repeat forever" flag; duration only where no float arithmetic on symbolic values is triggered
        loops.append(LoopRegion(start_sample=s, end_sample=e, repeat_forever=(f == 1) or p < 0, play_cnt=(p if p >= 0 else None)))
    smp = _sample(1, MidiNote.from_string("C4"), 0, 0, loops)
    hdr = get_smpl_chunk_data(smp)
    lh = hdr["sample_loops"]
    if len(lh) != n:
        return 0                                      # none of these regions is skipped
    for i in range(n):
        if lh[i]["cue_id"] != i or lh[i]["start_byte"] != spec[i][0] or lh[i]["end_byte"] != spec[i][1]:
            return 0
        if lh[i]["play_cnt"] != (spec[i][2] if spec[i][2] >= 0 else 0):
            return 0
    cnt = _sub(WavSampleChunkStruct, "sample_loop_cnt").func(Container(sample_loops=lh))
    dsz = _sub(WavSampleChunkStruct, "sampler_data_size").func(Container(sampler_data=hdr["sampler_data"]))
    if cnt != n or dsz != 0:
        return 0
    return 1


def h_layout(dummy: int) -> int:
    """
    pre: dummy == 0
    post: _ == 1
    """
    CNT[0] += 1
    with untraced():
        st = getattr(WavSampleChunkStruct, "defersubcon", WavSampleChunkStruct)
        fixed = 0
        names = []
        for sc in st.subcons:
            names.append(sc.name)
            if sc.name in ("sample_loops", "sampler_data"):
                continue
            fixed += sc.sizeof()
        if fixed != 36 or WavLoopStruct.sizeof() != 24 or WavFormatChunkStruct.sizeof() != 16:
            return 0
        if names.index("sample_loop_cnt") > names.index("sample_loops"):
            return 0
        # the loop array's length is the declared count
        arr = _sub(WavSampleChunkStruct, "sample_loops")
        if arr.count(Container(sample_loop_cnt=5)) != 5:
            return 0
    return 1


# ------------------------------------------------------------------ independent RIFF walker
def walk_riff(data):
    """-> list of (id, payload) or raises ValueError"""
    if len(data) < 12 or data[:4] != b"RIFF" or data[8:12] != b"WAVE":
        raise ValueError("no RIFF/WAVE header")
    if struct.unpack("<I", data[4:8])[0] != len(data) - 8:
        raise ValueError("RIFF size %d != file length - 8 = %d" % (struct.unpack("<I", data[4:8])[0], len(data) - 8))
    pos, out = 12, []
    while pos < len(data):
        if pos + 8 > len(data):
            raise ValueError("truncated chunk header")
        cid = data[pos:pos + 4]
        size = struct.unpack("<I", data[pos + 4:pos + 8])[0]
        if pos + 8 + size > len(data):
            raise ValueError("chunk %r overruns the file" % cid)
        out.append((cid, data[pos + 8:pos + 8 + size]))
        pos += 8 + size
    return out


class _Bytes:
    def __init__(self, b):
        self.io = io.BytesIO(b)

    def read(self, n):
        return self.io.read(n)

    def seek(self, off, whence=0):
        return self.io.seek(off, whence)


def h_riff(nch: int, frames: int, tail: int, nloops: int, note: int, rate_i: int) -> int:
    """
    pre: 1 <= nch <= 2 and 0 <= frames <= 3000 and 0 <= tail <= 1 and 0 <= nloops <= 3 and 0 <= note <= 1 and 0 <= rate_i <= 2
    post: _ == 1
    """
    CNT[0] += 1
    nch, tail, nloops, note, rate_i = conc(nch, 1, 2), conc(tail, 0, 1), conc(nloops, 0, 3), conc(note, 0, 1), conc(rate_i, 0, 2)
    # frame count: representative concrete values chosen by region (0, 1, inside a block, block boundary +-1, several blocks)
    fr = 0
    for v in (0, 1, 7, 2047, 2048, 2049, 2999):
        if frames >= v:
            fr = v
    with untraced():
        rate = (44100, 22050, 1)[rate_i]
        enc = StreamEncoding(endianess=Endianess.LITTLE, sample_width=2, num_interleaved_channels=1)
        pcm = [bytes((7 * c + i) & 0xFF for i in range(2 * fr + tail)) for c in range(nch)]
        s = Sample(name="x", num_channels=nch, sample_rate=rate, data_streams=[DataStream(_Bytes(pcm[c]), enc) for c in range(nch)],
                   midi_note=MidiNote.from_string("C4") if note else None, pitch_offset_semi=0 if note else None,
                   pitch_offset_cents=0 if note else None, loop_regions=[LoopRegion(i, i + 5) for i in range(nloops)])
        out = io.BytesIO()
        WavSampleBuilder.build_stream(s, out)
        data = out.getvalue()
        try:
            chunks = walk_riff(data)
        except ValueError:
            return 0
        ids = [c[0] for c in chunks]
        want_smpl = bool(note) or nloops > 0
        if ids != [b"fmt "] + ([b"smpl"] if want_smpl else []) + [b"data"]:
            return 0
        fmt = chunks[0][1]
        if len(fmt) != 16:
            return 0
        af, ch, sr, br, ba, bits = struct.unpack("<HHIIHH", fmt)
        if (af, ch, sr, bits) != (1, nch, rate, 16) or ba != 2 * nch or br != rate * ba:
            return 0
        body = chunks[-1][1]
        if len(body) % ba != 0 or len(body) != fr * ba:
            return 0
        if want_smpl:
            sm = chunks[1][1]
            cnt = struct.unpack("<I", sm[28:32])[0]
            if cnt != nloops or len(sm) != 36 + 24 * cnt:
                return 0
        try:
            w = wave.open(io.BytesIO(data))
            ok = (w.getnchannels(), w.getsampwidth(), w.getframerate(), w.getnframes()) == (nch, 2, rate, fr)
        except Exception:
            ok = False
        if not ok:
            return 0
    return 1


def h_overwrite(prev: int, fr_i: int, nch: int) -> int:
    """
    pre: 0 <= prev <= 4 and 0 <= fr_i <= 2 and 1 <= nch <= 2
    post: _ == 1
    """
    CNT[0] += 1
    prev, fr_i, nch = conc(prev, 0, 4), conc(fr_i, 0, 2), conc(nch, 1, 2)
    with untraced():
        # the file export_wav leaves at the path is exactly the encoded RIFF, whatever lay there before (nothing, an empty file, a shorter,
        # an equally long or a LONGER earlier export - the latter happens when two exports resolve to one path or a directory is reused)
        import os
        import shutil
        import tempfile
        from smpl_extract.generalized.wav import export_wav
        fr = (0, 10, 2049)[fr_i]
        enc = StreamEncoding(endianess=Endianess.LITTLE, sample_width=2, num_interleaved_channels=1)
        mk = lambda: Sample(name="x", num_channels=nch, sample_rate=44100,
                            data_streams=[DataStream(_Bytes(bytes((7 * c + i) & 0xFF for i in range(2 * fr))), enc) for c in range(nch)],
                            midi_note=None, pitch_offset_semi=None, pitch_offset_cents=None, loop_regions=[])
        ref = io.BytesIO()
        WavSampleBuilder.build_stream(mk(), ref)
        ref = ref.getvalue()
        d = tempfile.mkdtemp(prefix="vf_c04_")
        try:
            path = os.path.join(d, "x.wav")
            if prev > 0:
                n = (0, 0, max(0, len(ref) - 9), len(ref), len(ref) + 4001)[prev]
                with open(path, "wb") as fh:
                    fh.write(b"\xee" * n)
            export_wav(mk(), path)
            with open(path, "rb") as fh:
                got = fh.read()
        finally:
            shutil.rmtree(d, ignore_errors=True)
        if got != ref:
            return 0
        try:
            walk_riff(got)
        except ValueError:
            return 0
    return 1


RUNS = ["smpl_extract.formats.wav:WavFormatChunkStruct", "smpl_extract.formats.wav:WavSampleChunkStruct", "smpl_extract.formats.wav:RiffStruct",
        "smpl_extract.generalized.wav:WavSampleAdapter._encode", "smpl_extract.generalized.wav:get_smpl_chunk_data",
        "smpl_extract.generalized.wav:get_fmt_chunk_data", "smpl_extract.generalized.wav:get_smpl_normalized_pitch"] + c12.RUNS

META = {
    "assumptions": ["construct.Prefixed / GreedyRange / Lazy compute and write the nested length prefixes (library, trusted; exercised by C04.riff)",
                    "get_smpl_normalized_pitch's float arithmetic and loop play counts derived from durations are exempt by the statement ('for which export "
                    "succeeds') and are run on concrete values only",
                    "C04.riff: shape parameters are chosen by the solver and then concrete (frame counts by region: 0, 1, 7, 2047, 2048, 2049, 2999)"],
    "trusted": ["CPython 3.12", "z3 5.1", "CrossHair 0.0.110", "construct 2.10", "numpy (C04.riff runs the real transcoder)", "stdlib wave"],
    "out_of_claim": ["files with more than 2 channels or 3 loops in C04.riff", "header root-key x semitone x cents sweep (float path; exempt unless export fails)"],
}


def obligations(tier, seed):
    q = tier == "quick"
    T = 170 if q else 900
    obs = []

    def ob(name, func, pre, sym, bound, stubs=()):
        return dict(name=name, module="vf.props.c04", func=func, extra_pre=pre, timeout=T, runs=RUNS, sym=sym, bound=bound, stubs=list(stubs))
    obs.append(ob("C04.fmt", "h_fmt", [], "sample rate, channel count, bits", "rate < 2^32, channels 1..8, bits 8/16/32"))
    obs.append(ob("C04.order", "h_order", [], "channels, presence of note / semitone / cents, number of loops", "all 96 combinations", ["empty data streams"]))
    for n in range(4):
        obs.append(ob(f"C04.smpl/n={n}", "h_smpl", [f"n == {n}"], "start/end/play count/forever flag of every loop region", f"{n} loop regions, values < 1e6"))
    obs.append(ob("C04.layout", "h_layout", [], "-", "live struct sizes: fmt 16, smpl 36 + 24 per loop"))
    for nch in (1, 2):
        for nloops in ((0, 2) if q else (0, 1, 2, 3)):
            obs.append(ob(f"C04.riff/ch={nch}/loops={nloops}", "h_riff", [f"nch == {nch}", f"nloops == {nloops}"],
                          "frame-count region, stray tail bytes, note presence, rate", "7 frame counts x 2 tails x 2 x 3 rates", ["in-memory byte streams"]))
    for o in c12.obligations(tier, seed):
        if "/ch=1/" in o["name"] or "/ch=2/" in o["name"] or "/ch=1+1/" in o["name"]:
            obs.append(dict(o, name=o["name"].replace("C12.cfg", "C04.frames")))
    for o in c03.obligations(tier, seed):
        if o["name"].startswith("C03.drain"):
            obs.append(dict(o, name=o["name"].replace("C03.drain", "C04.frames/cdda")))
    obs.append(ob("C04.overwrite", "h_overwrite", [], "what lay at the output path before (nothing / empty / shorter / equal / longer), frame count, channels",
                  "5 x 3 x 2 shapes; real export_wav into a temporary directory"))
    return obs
