"""C01 — AKAI export is byte-exact for every sector allocation and file length.

Kernels (DESIGN.md 2/C01):
  C01.stack   the real stream stack of one sample file, built by the live construct nodes
              (PartitionHeaderConstruct.partition_stream, FileEntryConstruct.file_stream lambda,
              SampleHeaderConstruct.data_stream) over an abstract file, wrapped in the real AkaiSample.to_generalized
              and drained by the real WavSampleAdapter._encode -> make_transcoder loop.
  C01.window  the `this`-expressions of those nodes against the format's arithmetic.
  C01.rate    SampleAdapter._decode_element / get_fmt_chunk_data carry the header's rate (44100 iff 0).
  C01.sat     = C07 (chains); C01.names / pairs = C05, C06.
"""
from construct import Container
from smpl_extract.akai.sample import SampleHeaderConstruct, SampleAdapter, AkaiSample
from smpl_extract.akai.partition import PartitionHeaderConstruct
from smpl_extract.akai.file_entry import FileEntryConstruct
from smpl_extract.akai.sat import Segment
from smpl_extract.akai.data_types import AkaiLoopType, SampleType
from smpl_extract.generalized.wav import WavSampleAdapter, get_fmt_chunk_data
from smpl_extract.formats.wav import RiffStruct
from smpl_extract.util.constructs import ChildInfo
from smpl_extract.midi import MidiNote
from vf.absfile import mkfile, byte_is, indices, empty

CNT = [0]
L_A = 8192


def _sub(struct, name):
    st = getattr(struct, "defersubcon", struct)
    for sc in st.subcons:
        if sc.name == name:
            return sc.subcon
    raise KeyError(name)


H = getattr(SampleHeaderConstruct, "defersubcon", SampleHeaderConstruct).sizeof()     # header size, from the live struct
DATA_STREAM = _sub(SampleHeaderConstruct, "data_stream")
PART_STREAM = _sub(PartitionHeaderConstruct, "partition_stream")
PART_TOTAL = _sub(PartitionHeaderConstruct, "total_size")
FILE_STREAM = _sub(FileEntryConstruct, "file_stream")


class StubSat:
    """stands for the decoded SAT (decided by C07): hands out the chain of the one file under analysis"""

    def __init__(self, part, chain):
        self.part, self.chain, self.asked = part, chain, []

    def get_segment(self, index):
        self.asked.append(index)
        return Segment(self.part, list(self.chain))


def build_sample(f, P, psize, chain, fsize, start, end, first, rate=44100):
    """the stream stack exactly as the parsers build it, through the live construct nodes"""
    pctx = Container(size=psize, start_address=P * L_A)
    pctx["total_size"] = PART_TOTAL._parse(None, pctx, "")
    part = PART_STREAM._parse(f, pctx, "")
    sat = StubSat(part, chain)
    fctx = Container(_=Container(sat=sat), start=first, size=fsize)
    fstream = FILE_STREAM._parse(None, fctx, "")
    if sat.asked != [first]:
        raise AssertionError("file_stream lambda asked the SAT for %r" % (sat.asked,))
    hctx = Container(play_start=start, play_end=end, data_address=H)
    data = DATA_STREAM._parse(fstream, hctx, "")
    smp = AkaiSample("N", "N", SampleType.S1000, rate, 2,
                     end, start, end, MidiNote.from_string("C4"), 0, 0, AkaiLoopType.LOOP_INACTIVE, [],
                     _data_stream=data, _parent=None, _path=["a", "b", "N"])
    return smp


def drain(sample, max_blocks):
    g = sample.to_generalized()
    cont = WavSampleAdapter(RiffStruct)._encode(g, {}, "")
    chunks = cont["data"]["chunks"]
    gen = chunks[-1]["data"]
    out = []
    total = 0
    for blk in gen:
        out.append((total, blk))
        total = total + len(blk)
        if len(out) > max_blocks:
            return None, None, chunks
    return out, total, chunks


def h_stack(P: int, psize: int, nsec: int, s0: int, s1: int, s2: int, fsize: int, start: int, end: int, k: int) -> int:
    """
    pre: 0 <= P <= 10 and 41 <= psize <= 60
    pre: 1 <= nsec <= 3
    pre: 1 <= s0 <= 40 and 1 <= s1 <= 40 and 1 <= s2 <= 40 and s0 != s1 and s0 != s2 and s1 != s2
    pre: (nsec - 1) * 8192 < fsize <= nsec * 8192 and fsize >= 140
    pre: 0 <= start <= end and 140 + 2 * end <= fsize
    post: _ == 1
    """
    CNT[0] += 1
    nsec = 1 if nsec == 1 else (2 if nsec == 2 else 3)
    f = mkfile((P + psize) * L_A)
    chain = [s0, s1, s2][:nsec]
    smp = build_sample(f, P, psize, chain, fsize, start, end, s0)
    out, total, _chunks = drain(smp, 2 * nsec + 3)
    if out is None:
        return 0
    want = 2 * (end - start)
    if total != want:
        return 0
    for kk in indices(k, want):
        i = H + 2 * start + kk
        a = P * L_A + chain[i // L_A] * L_A + i % L_A
        for (b0, blk) in out:
            if b0 <= kk < b0 + len(blk):
                if not byte_is(blk, kk - b0, a):
                    return 0
    return 1


def h_window(size: int, tell: int, pstart: int, pend: int, daddr: int, fstart: int, fsize: int) -> int:
    """
    pre: 0 <= size <= 0xFFFF and 0 <= tell <= 10**9
    pre: 0 <= pstart <= 0xFFFFFFFF and 0 <= pend <= 0xFFFFFFFF and 0 <= daddr <= 10**6
    pre: 0 <= fstart <= 0xFFFF and 0 <= fsize <= 0xFFFFFF
    post: _ == 1
    """
    CNT[0] += 1
    pctx = Container(size=size, start_address=tell)
    total = PART_TOTAL._parse(None, pctx, "")
    if total != size * 8192:
        return 0
    pctx["total_size"] = total
    marker = object()
    part = PART_STREAM._parse(marker, pctx, "")
    if part.substream is not marker or part.offset != tell or part.end_of_file != size * 8192 or part.position != 0:
        return 0
    hctx = Container(play_start=pstart, play_end=pend, data_address=daddr)
    d = DATA_STREAM._parse(marker, hctx, "")
    if d.substream is not marker or d.offset != daddr + 2 * pstart or d.end_of_file != 2 * (pend - pstart) or d.position != 0:
        return 0
    sat = StubSat(marker, [1])
    fs = FILE_STREAM._parse(None, Container(_=Container(sat=sat), start=fstart, size=fsize), "")
    if sat.asked != [fstart] or fs.end_of_file != fsize or fs.position != 0:
        return 0
    if type(fs.substream) is not Segment or fs.substream.substream is not marker:
        return 0
    return 1


class _Hdr:
    pass


def h_rate(rate: int, channels: int) -> int:
    """
    pre: 0 <= rate <= 0xFFFF and 1 <= channels <= 2
    post: _ == 1
    """
    CNT[0] += 1
    h = _Hdr()
    h.loop_type = AkaiLoopType.LOOP_INACTIVE
    h.loop_data_table = []
    h.sampling_rate = rate
    h.sample_name = "N"
    h.id = list(SampleType)[0]
    h.samples_cnt = 10
    h.play_start = 0
    h.play_end = 10
    h.note_pitch = MidiNote.from_string("C4")
    h.pitch_offset_cents = 0
    h.pitch_offset_semi = 0
    h.data_stream = None
    ci = ChildInfo(parent=None, parent_path=[], next_path=["N"], routines={}, name="N")
    smp = SampleAdapter(SampleHeaderConstruct)._decode_element(h, ci, {}, "")
    want = 44100 if rate == 0 else rate
    if smp.sample_rate != want:
        return 0
    smp._data_stream = mkfile(10)
    g = smp.to_generalized()
    if g.sample_rate != want:
        return 0
    from smpl_extract.data_streams import StreamEncoding, Endianess
    fmt = get_fmt_chunk_data(g, StreamEncoding(endianess=Endianess.LITTLE, sample_width=2, num_interleaved_channels=channels))
    if fmt["sample_rate"] != want or fmt["channel_cnt"] != channels or fmt["bits_per_sample"] != 16 or fmt["audio_format"] != 1:
        return 0
    return 1


# ------------------------------------------------------------------ C01.image: whole images from the independent writer through the real export
def _words(n, seed):
    import struct
    return b"".join(struct.pack("<h", ((i * 7 + seed * 1000) % 60000) - 30000) for i in range(n))


def _riff_chunks(data):
    import struct
    if len(data) < 12 or data[:4] != b"RIFF" or data[8:12] != b"WAVE" or struct.unpack("<I", data[4:8])[0] != len(data) - 8:
        raise ValueError("bad RIFF header")
    pos, out = 12, {}
    while pos < len(data):
        size = struct.unpack("<I", data[pos + 4:pos + 8])[0]
        out[data[pos:pos + 4]] = data[pos + 8:pos + 8 + size]
        pos += 8 + size
    return out


def h_image(dirk: int, vtype: int, free: int, rev: int, sizek: int, mark: int, rate_i: int, parts: int, pair: int) -> int:
    """
    pre: 0 <= dirk <= 2 and 0 <= vtype <= 1 and 0 <= free <= 1 and 0 <= rev <= 5 and 0 <= sizek <= 2 and 0 <= mark <= 2
    pre: 0 <= rate_i <= 2 and 1 <= parts <= 2 and 0 <= pair <= 2
    post: _ == 1
    """
    CNT[0] += 1
    from vf.util import conc, untraced
    dirk, vtype, free, rev, sizek, mark = conc(dirk, 0, 2), conc(vtype, 0, 1), conc(free, 0, 1), conc(rev, 0, 5), conc(sizek, 0, 2), conc(mark, 0, 2)
    rate_i, parts, pair = conc(rate_i, 0, 2), conc(parts, 1, 2), conc(pair, 0, 2)
    with untraced():
        import io
        import struct
        from vf import akaiw
        from vf.props import c16
        import smpl_extract.actions as actions
        sf = akaiw.sample_file
        rate = (0, 22050, 44100)[rate_i]
        nb = (10, 4026, 8122)[sizek]                   # small / fills its sector exactly / fills two sectors exactly
        wa, wb = _words(10000, 1), _words(nb, 2)        # AAA: 3 sectors, stored in every one of the 6 link orders
        order3 = ([0, 1, 2], [1, 0, 2], [0, 2, 1], [2, 0, 1], [1, 2, 0], [2, 1, 0])[rev]
        st, en = ((0, None), (7, nb - 3), (5, 5))[mark] if nb > 10 or mark != 1 else (2, 9)
        files = [("AAA", 0x73, sf("AAA", wa, rate=rate), order3 if rev else None),
                 ("BBB", 0xf3, sf("BBB", wb, rate=rate, start=st, end=en), ([1, 0] if rev % 2 else None) if sizek == 2 else None)]
        exp = {"A/VOL ONE/AAA.wav": (1, 44100 if rate == 0 else rate, wa),
               "A/VOL ONE/BBB.wav": (1, 44100 if rate == 0 else rate, wb[2 * st:2 * (len(wb) // 2 if en is None else en)])}
        if pair:
            wl, wr = _words(300, 3), _words(300, 4)
            pf = [("PAD  -L", 0x73, sf("PAD  -L", wl), None), ("PAD  -R", 0x73, sf("PAD  -R", wr), None)]
            files = files[:1] + (pf if pair == 1 else pf[::-1]) + files[1:]
            inter = b"".join(wl[2 * i:2 * i + 2] + wr[2 * i:2 * i + 2] for i in range(300))
            exp["A/VOL ONE/PAD.wav"] = (2, 44100, inter)
        kw = dict(dir_sectors=(1, 2, 2)[dirk], dir_linked=(dirk == 2), vol_type=(1, 3)[vtype], first_free=(3, 6)[free])
        img = akaiw.partition([("VOL ONE", files, None)], size_sectors=24, **kw)
        if parts == 2:
            wc = _words(50, 5)
            img += akaiw.partition([("V2", [("CCC", 0x73, sf("CCC", wc), None)], None), ("V3", [("CCC", 0xf3, sf("CCC", wc[:40]), None)], None)], size_sectors=16)
            exp["B/V2/CCC.wav"] = (1, 44100, wc)
            exp["B/V3/CCC.wav"] = (1, 44100, wc[:40])
        try:
            res = c16._do(actions.determine_image_type(io.BufferedReader(io.BytesIO(img))), ("export", None))
        except Exception:
            return 0
        got = dict(res[1])
        # exactly one WAV per sample file (one per left/right pair) at <partition>/<volume>/<name>.wav and nothing else
        if sorted(got) != sorted("out/" + k for k in exp):
            return 0
        lines = [ln for ln in res[2].split("\n") if ln]
        if sorted(lines) != sorted("Exported " + k for k in exp):
            return 0
        for k, (ch, rt, pcm) in exp.items():
            try:
                c = _riff_chunks(got["out/" + k])
            except ValueError:
                return 0
            af, nch, sr, br, ba, bits = struct.unpack("<HHIIHH", c[b"fmt "])
            if (af, nch, sr, bits, ba, br) != (1, ch, rt, 16, 2 * ch, rt * 2 * ch):
                return 0
            if c[b"data"] != pcm:
                return 0
    return 1


RUNS = ["smpl_extract.akai.sample:AkaiSample.to_generalized", "smpl_extract.akai.sample:SampleAdapter._decode_element",
        "smpl_extract.generalized.wav:WavSampleAdapter._encode", "smpl_extract.generalized.wav:get_fmt_chunk_data",
        "smpl_extract.transcoder:make_transcoder", "smpl_extract.transcoder:PassthroughTranscoder.__next__",
        "smpl_extract.transcoder:resize_buffer", "smpl_extract.util.stream:StreamWrapper", "smpl_extract.util.stream:StreamOffset",
        "smpl_extract.util.stream:SubStreamConstruct._parse", "smpl_extract.util.sector:SectorStream", "smpl_extract.util.fat:FileStream",
        "smpl_extract.akai.sat:Segment"]

META = {
    "assumptions": [
        "the decoded SAT hands out the file's chain (decided separately by C07); StubSat returns the symbolic chain",
        "the sample header is parsed from offset 0 of the file stream, so Tell == SampleHeaderConstruct.sizeof() (140)",
        "construct delivers the parsed size/start/play_start/play_end to the lambdas (glue, trusted)",
        "sample rate fixed to 44100 in C01.stack (the rate path is C01.rate)",
    ],
    "trusted": ["CPython 3.12", "z3 5.1", "CrossHair 0.0.110", "construct 2.10 (Struct/Lazy/Computed execution)", "AbsFile/Spans stub"],
    "out_of_claim": ["directory walking / ExportManager / VolumesAdapter / FileEntriesAdapter glue is not symbolic: it is exercised end to end by C01.image on solver-chosen concrete images",
                     "files longer than 3 sectors", "partitions beyond the stated window"],
}


def _ob(name, func, extra, timeout, sym, bound, **kw):
    return dict(name=name, module="vf.props.c01", func=func, extra_pre=list(extra), timeout=timeout, runs=RUNS,
                sym=sym, bound=bound, stubs=["AbsFile/Spans", "StubSat"], **kw)


def obligations(tier, seed):
    q = tier == "quick"
    T = 170 if q else 1500
    obs = []
    regions = [("interior", "fsize % 8192 != 0 and start < end"),
               ("exact_fill", "fsize % 8192 == 0 and start < end"),
               ("empty", "start == end")]
    for nsec in ((1, 2) if q else (1, 2, 3)):
        for rname, rpre in regions:
            obs.append(_ob(f"C01.stack/nsec={nsec}/{rname}", "h_stack", [f"nsec == {nsec}", rpre], T,
                           "partition start and size, sector numbers (distinct, any order), file size, start/end markers, byte index",
                           f"files of {nsec} sector(s), every size and marker pair inside; P <= 10; sectors <= 40"))
    obs.append(_ob("C01.window", "h_window", [], T, "every field the window expressions read", "full field ranges (u16/u24/u32)", twin=True))
    obs.append(_ob("C01.rate", "h_rate", [], T, "sampling_rate word, channel count", "0..65535"))
    for dirk in range(3):
        for pair in range(3):
            if q and (dirk, pair) not in ((0, 1), (1, 2), (2, 0), (2, 1)):
                continue
            obs.append(_ob(f"C01.image/dir={('1-reserved', '2-reserved-run', '2-linked')[dirk]}/pair={('none', 'L-first', 'R-first')[pair]}", "h_image",
                           [f"dirk == {dirk}", f"pair == {pair}"] + (["free == 0 and vtype == 1"] if q else []), T,
                           "volume type, free sectors below, chain order, file length class (small / exact sector fill / 2 sectors exact), markers, rate, 1..2 partitions",
                           "whole images from the independent writer through the real determine_image_type + export_samples_to_wav; concrete per path",
                           twin=True))
    # shared kernels: the SAT decoder / chain walk / bytes over the chain (C07) and the L/R pairing of one directory (C05)
    from vf.props import c07, c05
    for o in c07.obligations(tier, seed):
        if o["name"].startswith(("C07.akai/n=3", "C07.bytes")) or (not q and o["name"].startswith("C07.akai/n=4")):
            obs.append(dict(o, name=o["name"].replace("C07.", "C01.sat/")))
    for o in c05.obligations(tier, seed):
        if o["name"].startswith("C05.pair"):
            obs.append(dict(o, name=o["name"].replace("C05.pair", "C01.pairs")))
    return obs
