"""C12 — PCM transcoding maps every source channel to the same-numbered output channel.

Runs the REAL make_transcoder / get_buffer_sizes / decode_frame / pad_channels / encode_frame / swap_endianess[_multi] /
PassthroughTranscoder / PipelineTranscoder on abstract source streams (AStream) with the index-map numpy stand-in
(NpShim, rebinding transcoder.np).  One obligation per configuration (number of streams, channels per stream, width,
byte orders, host order); stream lengths, the internal block size and the checked output byte are symbolic.
"""
import smpl_extract.transcoder as T
from smpl_extract.data_streams import DataStream, StreamEncoding, Endianess
from vf.npshim import NpShim, AStream, ZERO
from vf.absfile import REAL

CNT = [0]
_ORIG = {"np": T.np, "buf": T._DEFAULT_BUFFER_SIZE, "sbo": T.system_byte_order,
         "gnfp_defaults": T.get_num_frames_possible.__defaults__}


class RealStream:
    """replay counterpart of AStream: real bytes, each byte value derived from (sid, offset)"""

    def __init__(self, sid, size):
        import io
        self.sid = sid
        self.io = io.BytesIO(bytes(tag_byte((sid, o)) for o in range(size)))

    def read(self, n):
        return self.io.read(n)

    def seek(self, off, whence=0):
        return self.io.seek(off, whence)


def tag_byte(tag):
    if tag == ZERO:
        return 0
    sid, off = tag
    return 1 + ((sid * 89 + off * 7 + (off >> 8) * 13) % 251)          # never 0, so padding is distinguishable


def setup(host_big, block):
    if not REAL:
        T.np = NpShim
    T.system_byte_order = Endianess.BIG if host_big else Endianess.LITTLE
    if REAL:
        import sys
        # replay on real numpy cannot change the host order; the harness skips host_big replays unless the host matches
    T._DEFAULT_BUFFER_SIZE = block
    T.get_num_frames_possible.__defaults__ = (block,)


def run_config(chans, width, orders, dst_big, host_big, lens, block, k):
    """chans[i] = interleaved channels of stream i; orders[i] = 1 for big endian; lens[i] = byte length"""
    setup(host_big, block)
    ns = len(chans)
    streams = []
    for i in range(ns):
        enc = StreamEncoding(endianess=Endianess.BIG if orders[i] else Endianess.LITTLE, sample_width=width,
                             num_interleaved_channels=chans[i])
        src = RealStream(i, lens[i]) if REAL else AStream(i, lens[i])
        streams.append(DataStream(src, enc))
    C = 0
    for c in chans:
        C += c
    dst = StreamEncoding(endianess=Endianess.BIG if dst_big else Endianess.LITTLE, sample_width=width, num_interleaved_channels=C)
    tr = T.make_transcoder(streams, dst)
    out = []
    total = 0
    for blk in tr:
        if len(blk) == 0 or len(blk) % (C * width) != 0:
            return 0                                  # every block a whole number of output frames
        out.append((total, blk))
        total = total + len(blk)
        if len(out) > 5:
            return 0          # more blocks than any admitted length needs
    frames = [lens[i] // (chans[i] * width) for i in range(ns)]
    lo = min(frames)
    hi = max(frames)
    if total % (C * width) != 0:
        return 0
    got = total // (C * width)
    if not (lo <= got <= hi):
        return 0
    if lo == hi and got != lo:
        return 0
    # channel map: output channel c <- stream sidx, interleaved channel cc
    cmap = []
    for i in range(ns):
        for cc in range(chans[i]):
            cmap.append((i, cc))
    ks = range(lo * C * width) if REAL else ([k] if 0 <= k < lo * C * width else [])
    for kk in ks:
        fr = kk // (C * width)
        c = (kk // width) % C
        b = kk % width
        sidx, cc = cmap[c]
        src_b = (width - 1 - b) if (orders[sidx] != dst_big) else b     # byte-reversed iff orders differ
        want = (sidx, (fr * chans[sidx] + cc) * width + src_b)
        for (b0, blk) in out:
            if b0 <= kk < b0 + len(blk):
                if REAL:
                    if blk[kk - b0] != tag_byte(want):
                        return 0
                elif blk.at(kk - b0) != want:
                    return 0
    return 1


def _mk(ns):
    pass


def h_cfg(cfg: int, mb: int, l0: int, l1: int, l2: int, block: int, k: int) -> int:
    """
    pre: 0 <= cfg and 1 <= mb <= 3
    pre: 0 <= l0 <= 13000 and 0 <= l1 <= 13000 and 0 <= l2 <= 13000
    pre: 1 <= block <= 4096
    post: _ == 1
    """
    CNT[0] += 1
    cfg = int(cfg)                      # pinned by the obligation's pre-condition; concrete per path
    mb = int(mb)
    chans, width, orders, dst_big, host_big = decode_cfg(cfg)
    lens = [l0, l1, l2][:len(chans)]
    # bound (an assumption placed before the code under test): every stream is at most 3 internal blocks + a partial frame,
    # where the internal block is min_i max(1, block // frame_i) frames as the statement's "block size" implies
    nfr = None
    for c in chans:
        x = block // (c * width)
        if x < 1:
            x = 1
        if nfr is None or x < nfr:
            nfr = x
    for i in range(len(chans)):
        if lens[i] > mb * nfr * chans[i] * width + chans[i] * width - 1:
            return 1
    return run_config(chans, width, orders, dst_big, host_big, lens, block, k)


# configuration <-> int (so that a counterexample is a plain tuple of ints)
SHAPES = [(1,), (2,), (3,), (1, 1), (1, 2), (2, 1), (2, 2), (1, 1, 1), (1, 1, 2), (2, 1, 1), (1, 2, 1)]
WIDTHS = [1, 2, 4]


def encode_cfg(shape_i, width_i, order_bits, dst_big, host_big):
    return ((((shape_i * 3 + width_i) * 8 + order_bits) * 2 + dst_big) * 2 + host_big)


def decode_cfg(cfg):
    host_big = cfg % 2
    cfg //= 2
    dst_big = cfg % 2
    cfg //= 2
    order_bits = cfg % 8
    cfg //= 8
    width = WIDTHS[cfg % 3]
    shape = SHAPES[cfg // 3]
    orders = [(order_bits >> i) & 1 for i in range(len(shape))]
    return list(shape), width, orders, dst_big, host_big


RUNS = ["smpl_extract.transcoder:make_transcoder", "smpl_extract.transcoder:get_buffer_sizes", "smpl_extract.transcoder:get_num_frames_possible",
        "smpl_extract.transcoder:decode_frame", "smpl_extract.transcoder:resize_buffer", "smpl_extract.transcoder:pad_channels",
        "smpl_extract.transcoder:encode_frame", "smpl_extract.transcoder:swap_endianess", "smpl_extract.transcoder:swap_endianess_multi",
        "smpl_extract.transcoder:PassthroughTranscoder.__next__", "smpl_extract.transcoder:PipelineTranscoder.__next__",
        "smpl_extract.data_streams:StreamEncoding.__eq__", "smpl_extract.data_streams:DataStream.__post_init__"]

META = {
    "assumptions": [
        "numpy is replaced by the index-map NpShim (exact for data-oblivious pipelines); width-changing astype is not modelled",
        "internal block size: transcoder._DEFAULT_BUFFER_SIZE and the default argument of get_num_frames_possible are rebound to a symbolic value in 1..4096",
        "host byte order: transcoder.system_byte_order rebound (numpy's own notion of native order is not consulted by the code)",
        "source reads are sequential AStream reads (the stream layer is C08/C11)",
    ],
    "trusted": ["CPython 3.12", "z3 5.1", "CrossHair 0.0.110", "vf.npshim"],
    "out_of_claim": ["more than 3 streams or 3 interleaved channels", "lengths above 3 blocks + 40 bytes", "sample widths other than 1, 2, 4"],
}


def _configs(tier):
    out = []
    if tier == "quick":
        for si in (0, 1, 2, 3, 4, 7):
            shape = SHAPES[si]
            for wi in ((1,) if si not in (2,) else (0, 1, 2)):
                for ob in range(1 << len(shape)):
                    if len(shape) == 3 and ob not in (0, 2, 5, 7):
                        continue
                    for host in (0, 1):
                        if host == 1 and ob not in (0, (1 << len(shape)) - 1, 1):
                            continue
                        out.append(encode_cfg(si, wi, ob, 0, host))
        out.append(encode_cfg(3, 1, 1, 1, 0))
    else:
        for si in range(len(SHAPES)):
            shape = SHAPES[si]
            for wi in ((0, 1, 2) if len(shape) < 2 else (1,)):                 # several streams: 16-bit only (wall-time budget)
                for ob in range(1 << len(shape)):
                    if len(shape) == 3 and ob not in (0, 2, 5, 7):
                        continue
                    for host in (0, 1):
                        out.append(encode_cfg(si, wi, ob, 0, host))
                        if si in (0, 3) and wi == 1:
                            out.append(encode_cfg(si, wi, ob, 1, host))
    return sorted(set(out))


def obligations(tier, seed):
    q = tier == "quick"
    T_ = 170 if q else 1200
    obs = []
    for cfg in _configs(tier):
        chans, width, orders, dst_big, host_big = decode_cfg(cfg)
        ns = len(chans)
        base = "C12.cfg/ch=%s/w=%d/src=%s/dst=%s/host=%s" % ("+".join(map(str, chans)), width,
                                                             "".join("B" if o else "L" for o in orders), "B" if dst_big else "L", "B" if host_big else "L")
        # single stream: block size symbolic, up to 3 blocks.  several streams: the path count multiplies per stream, so the block
        # size is pinned to representative values (default 4096, one frame, a few frames) and lengths to <= mb blocks + partial frame
        if ns == 1:
            variants = [("blk=sym", 3, [])]
        else:
            fr = max(chans) * width
            mb = 1 if (q or ns == 3) else 2
            variants = [("blk=4096", mb, ["block == 4096"]), ("blk=1frame", mb, [f"block == {fr}"])]
            if q and ns == 3:
                variants = variants[1:]
            if q and ns == 2 and chans[0] != chans[1]:
                # streams with different frame sizes, two rounds: a per-stream block that is not the same number of FRAMES for every
                # stream only shows from the second round on (seed C12c)
                variants.append(("blk=1frame/2rounds", 2, [f"block == {fr}"]))
            if not q and ns == 2 and width == 2:
                variants.append((f"blk={3 * fr + 1}", mb, [f"block == {3 * fr + 1}"]))
        for vname, mb, vpre in variants:
            pre = [f"cfg == {cfg}", f"mb == {mb}"] + vpre
            if ns < 3:
                pre.append("l2 == 0")
            if ns < 2:
                pre.append("l1 == 0")
            obs.append(dict(name=base + "/" + vname, module="vf.props.c12", func="h_cfg", extra_pre=pre, timeout=T_, runs=RUNS,
                            sym="byte length of every stream, internal block size (where not pinned), output byte index",
                            bound=f"lengths 0..{mb} internal blocks + a partial frame; {vname}", stubs=["NpShim", "AStream"]))
    return obs
