"""C17 — cue sheets are read the same regardless of case, spacing and unknown lines.

  C17.line/*     (symx) each of the four LIVE line patterns on a symbolic line  blanks KEYWORD(case symbolic per letter) blanks+ fields blanks :
                 it matches and its groups are the canonical line's, for every casing and blank run; a line starting with another keyword
                 (REM, PERFORMER, FLAGS, PREGAP, CATALOG, symbolic letters) matches none of the four.
  C17.uses       static (AST) check: cuesheet.py touches a line's text only through .strip(), len() and the four compiled patterns - so by C17.line a
                 re-cased / re-indented line drives the parser exactly like the canonical one.
  C17.insert/*   (CrossHair, decision tree) the REAL parse_cue_sheet on canonical sheets of 1..3 tracks (TITLE / second INDEX presence symbolic) with one or
                 two cosmetic lines (empty, blanks, tab, REM, PERFORMER, FLAGS, PREGAP, REM lines that quote FILE/TRACK/INDEX text) inserted at every admissible position equals the parse of the
                 canonical sheet; re-casing / re-indenting every line at once as well.
  C17.reject     no FILE line => BadCueSheet; non-ASCII text => BadTextFile => binary path taken by determine_image_type.
"""
import ast
import inspect
import os
import z3
import smpl_extract.cuesheet as cs
import smpl_extract.actions as actions
from vf.util import conc, untraced

CNT = [0]

LINES = {
    "FILE": ("_FILE_LINE_REGEX", "FILE", ' "a b.bin" ', "BINARY", ["a b.bin"]),
    "TRACK": ("_TRACK_LINE_REGEX", "TRACK", " 07 ", "AUDIO", ["07", "AUDIO"]),
    "TITLE": ("_TITLE_LINE_REGEX", "TITLE", ' "T x"', "", ["T x"]),
    "INDEX": ("_INDEX_LINE_REGEX", "INDEX", " 01 ", "12:34:56", ["01", "12", "34", "56"]),
}


def _cased(word, prefix):
    """keyword with the case of every letter symbolic"""
    from vf import symx
    chars, cons = [], []
    for i, ch in enumerate(word):
        v = z3.BitVec(f"{prefix}_k{i}", 8)
        chars.append(v)
        cons.append(z3.Or(v == ord(ch.upper()), v == ord(ch.lower())))
    return symx.SymStr(chars, len(word)), cons


def _blanks(name, lo, hi):
    from vf import sximg
    s, c = sximg.sym_str(name, hi, alphabet=[32, 9], minlen=lo)
    return s, c


def p_line(kind="TRACK", twin=False, timeout=600, exclude=(), only=None, replay=None, maxrun=2):
    """blank-run LENGTHS are enumerated (shape), the blank characters (space/tab) and the case of every keyword letter are symbolic"""
    from vf import symx
    import itertools
    attr, kw, mid, tail, want = LINES[kind]
    live = getattr(cs, attr)

    def rep(cex):
        mm = live.match(cex["line"].strip())
        return (mm is None) or list(mm.groups()) != want
    if replay is not None:
        return {"verdict": "refuted", "reproduced": rep(replay), "cex": replay}
    agg = {"paths": 0, "queries": 0, "solver_s": 0.0, "messages": [], "verdict": "discharged"}
    shapes = list(itertools.product(range(maxrun + 1), repeat=3))
    for (l0, l1, l2) in shapes:
        symx.reset()
        pat = symx.SymPattern(live.pattern, live.flags)
        k, base = _cased(kw, "kw")
        bl = []
        for nm, ln in (("b0", l0), ("b1", l1), ("b2", l2)):
            b, c = _blanks(nm, ln, ln) if ln else (symx.SymStr.lift(""), [])
            bl.append(b)
            base = base + c
        tail_s, tc = _cased(tail, "tl") if kind == "FILE" else (symx.SymStr.lift(tail), [])
        base = base + tc
        line = bl[0] + k + bl[1] + mid + tail_s + bl[2]

        def body():
            m = pat.match(line)
            viol = [z3.Not(m.ok)]
            for gi, w in enumerate(want):
                viol.append(z3.Not(m.group(gi + 1).eq(w)))
            return z3.Or(viol)

        def describe(m):
            return {"line": line.concrete(m), "kind": kind}
        out = symx.run_obligation(body, base, describe, rep, twin=twin, timeout=max(30, timeout / len(shapes) * 3))
        for key in ("paths", "queries", "solver_s"):
            agg[key] += out.get(key, 0)
        agg["messages"] += out.get("messages", [])
        if twin:
            if out["verdict"] == "refuted":
                return dict(agg, **{k2: out[k2] for k2 in ("verdict", "cex", "cex_message", "reproduced", "replay") if k2 in out})
            continue
        if out["verdict"] == "refuted":
            return dict(agg, **{k2: out[k2] for k2 in ("verdict", "cex", "cex_message", "reproduced", "replay") if k2 in out})
        if out["verdict"] != "discharged":
            agg["verdict"] = "inconclusive"
    if twin:
        agg["verdict"] = "discharged"
    return agg


def p_other(twin=False, timeout=600, exclude=(), only=None, replay=None):
    """a line whose first word is none of FILE/TRACK/TITLE/INDEX (any casing) matches none of the four patterns"""
    from vf import symx, sximg
    symx.reset()
    pats = {k: symx.SymPattern(getattr(cs, v[0]).pattern, getattr(cs, v[0]).flags) for k, v in LINES.items()}
    word, base = sximg.sym_str("w", 6, alphabet=[ord(c) for c in "FILETRACKNDXfiletrackndxPGM"], minlen=1)
    rest, c1 = sximg.sym_str("r", 5, alphabet=[ord(c) for c in ' "0:A'])
    base += c1
    line = word + " " + rest
    up = word.upper()
    base += [z3.Not(up.eq(k)) for k in LINES]
    # ... and it is not one of them glued to more letters either (TRACKS, INDEXX): the patterns require \\s+ after the keyword

    def body():
        return z3.Or([p.match(line).ok for p in pats.values()])

    def describe(m):
        return {"line": line.concrete(m)}

    def rep(cex):
        return any(getattr(cs, v[0]).match(cex["line"]) for v in LINES.values())
    if replay is not None:
        return {"verdict": "refuted", "reproduced": rep(replay), "cex": replay}
    return symx.run_obligation(body, base, describe, rep, twin=twin, timeout=timeout)


# ------------------------------------------------------------------ static: how the parser uses a line's text
def p_uses(twin=False, timeout=60, exclude=(), only=None, replay=None):
    src = inspect.getsource(cs)
    tree = ast.parse(src)
    bad = []
    text_names = {"text"}
    for fn in ast.walk(tree):
        if not isinstance(fn, ast.FunctionDef):
            continue
        for node in ast.walk(fn):
            if isinstance(node, ast.Name) and node.id in text_names and isinstance(node.ctx, ast.Load):
                par = _parent(fn, node)
                ok = False
                if isinstance(par, ast.Call):
                    f = par.func
                    if isinstance(f, ast.Name) and f.id == "len":
                        ok = True
                    if isinstance(f, ast.Attribute) and f.attr == "match" and isinstance(f.value, ast.Name) and f.value.id.endswith("_LINE_REGEX"):
                        ok = True
                if isinstance(par, (ast.List, ast.Tuple, ast.Return)):
                    ok = True                      # pushed back / returned unchanged
                if isinstance(par, ast.Call) and isinstance(par.func, ast.Attribute) and par.func.attr == "append" and "unparsed" in ast.dump(par.func):
                    ok = True                      # kept verbatim in track.unparsed (not part of the sheet's meaning)
                if not ok:
                    bad.append("%s:%d %s" % (fn.name, node.lineno, type(par).__name__))
    strip_ok = "lines.pop(0).strip()" in src
    out = {"paths": 1, "queries": 0, "solver_s": 0.0, "messages": []}
    if twin:
        out.update(verdict="refuted", reproduced=True, cex={"functions": [f.name for f in ast.walk(tree) if isinstance(f, ast.FunctionDef)]}, cex_message="witness")
        return out
    if bad or not strip_ok:
        out.update(verdict="refuted", reproduced=True, cex={"other_uses_of_line_text": bad, "strip_in_get_nonempty_entry": strip_ok},
                   cex_message="cuesheet.py uses a line's text other than through strip/len/the four patterns: %s" % bad)
    else:
        out.update(verdict="discharged")
    return out


def _parent(root, target):
    for node in ast.walk(root):
        for ch in ast.iter_child_nodes(node):
            if ch is target:
                return node
    return None


# ------------------------------------------------------------------ whole sheets (engine X, decision tree; concrete per path)
COSMETIC = ["", "   ", "\t", "REM COMMENT x", 'PERFORMER "p"', "FLAGS DCP", "PREGAP 00:02:00", 'REM FILE "old.bin" BINARY', "REM TRACK 09 AUDIO then INDEX 01 00:00:00"]


def _canonical(ntracks, titles, idx2, data_last):
    lines = ['FILE "disc.bin" BINARY']
    for t in range(ntracks):
        mode = "MODE1/2352" if (data_last and t == ntracks - 1) else "AUDIO"
        lines.append("  TRACK %02d %s" % (t + 1, mode))
        if titles[t]:
            lines.append('    TITLE "Title %d"' % (t + 1))
        if idx2[t] == 2:
            lines.append("    INDEX 00 %02d:%02d:%02d" % (t, 2 * t, 3 * t))          # pregap marker BEFORE index 01
            lines.append("    INDEX 01 %02d:%02d:%02d" % (t, 2 * t, 3 * t + 2))
        else:
            lines.append("    INDEX 01 %02d:%02d:%02d" % (t, 2 * t, 3 * t))
        if idx2[t] == 1:
            lines.append("    INDEX 02 %02d:%02d:%02d" % (t, 2 * t + 1, 0))
    return lines


def _expected(ntracks, titles, idx2, data_last):
    """the meaning of a canonical sheet, written down independently of the parser"""
    tracks = []
    for t in range(ntracks):
        mode = "mode1/2352" if (data_last and t == ntracks - 1) else "audio"
        if idx2[t] == 2:
            idx = [(0, t, 2 * t, 3 * t), (1, t, 2 * t, 3 * t + 2)]
        else:
            idx = [(1, t, 2 * t, 3 * t)]
        if idx2[t] == 1:
            idx.append((2, t, 2 * t + 1, 0))
        tracks.append((t + 1, mode, ("Title %d" % (t + 1)) if titles[t] else None, idx))
    return ("disc.bin", tracks)


def h_meaning(ntracks: int, t0: int, t1: int, t2: int, x0: int, x1: int, x2: int, data_last: int) -> int:
    """
    pre: 1 <= ntracks <= 3 and 0 <= t0 <= 1 and 0 <= t1 <= 1 and 0 <= t2 <= 1 and 0 <= x0 <= 2 and 0 <= x1 <= 2 and 0 <= x2 <= 2 and 0 <= data_last <= 1
    post: _ == 1
    """
    CNT[0] += 1
    ntracks, data_last = conc(ntracks, 1, 3), conc(data_last, 0, 1)
    titles = [conc(v, 0, 1) for v in (t0, t1, t2)[:ntracks]] + [0] * (3 - ntracks)
    idx2 = [conc(v, 0, 2) for v in (x0, x1, x2)[:ntracks]] + [0] * (3 - ntracks)
    with untraced():
        return 1 if _meaning(_canonical(ntracks, titles, idx2, data_last)) == _expected(ntracks, titles, idx2, data_last) else 0


def _meaning(lines):
    try:
        r = cs.parse_cue_sheet([ln + "\n" for ln in lines])
    except cs.BadCueSheet:
        return "BAD"
    return (r.bin_file_name, [(t.number, t.mode.lower(), t.title, [(i.number, i.n_minutes, i.n_seconds, i.n_frames) for i in t.indices]) for t in r.tracks])


def _admissible(lines, p, cosmetic):
    """blank lines anywhere; unknown lines before the FILE line or inside a track (after a TRACK line)"""
    if cosmetic.strip() == "":
        return True
    if p == 0:
        return True
    seen_track = any(ln.strip().upper().startswith("TRACK") for ln in lines[:p])
    return seen_track


def h_insert(ntracks: int, t0: int, t1: int, t2: int, x0: int, x1: int, x2: int, data_last: int, p: int, c: int, p2: int, c2: int, two: int) -> int:
    """
    pre: 1 <= ntracks <= 3 and 0 <= t0 <= 1 and 0 <= t1 <= 1 and 0 <= t2 <= 1 and 0 <= x0 <= 1 and 0 <= x1 <= 1 and 0 <= x2 <= 1
    pre: 0 <= data_last <= 1 and 0 <= p <= 13 and 0 <= c <= 8 and 0 <= p2 <= 14 and 0 <= c2 <= 8 and 0 <= two <= 1
    post: _ == 1
    """
    CNT[0] += 1
    ntracks, data_last, two = conc(ntracks, 1, 3), conc(data_last, 0, 1), conc(two, 0, 1)
    titles = [conc(v, 0, 1) for v in (t0, t1, t2)[:ntracks]] + [0] * (3 - ntracks)
    idx2 = [conc(v, 0, 1) for v in (x0, x1, x2)[:ntracks]] + [0] * (3 - ntracks)
    p, c = conc(p, 0, 13), conc(c, 0, 8)
    if two:
        p2, c2 = conc(p2, 0, 14), conc(c2, 0, 8)
    with untraced():
        base = _canonical(ntracks, titles, idx2, data_last)
        if p > len(base) or not _admissible(base, p, COSMETIC[c]):
            return 1
        var = base[:p] + [COSMETIC[c]] + base[p:]
        if two:
            if p2 > len(var) or not _admissible(var, p2, COSMETIC[c2]):
                return 1
            var = var[:p2] + [COSMETIC[c2]] + var[p2:]
        want = _meaning(base)
        if want == "BAD":
            return 0
        return 1 if _meaning(var) == want else 0


def h_recase(ntracks: int, t0: int, t1: int, t2: int, x0: int, lower: int, indent: int, trail: int) -> int:
    """
    pre: 1 <= ntracks <= 3 and 0 <= t0 <= 1 and 0 <= t1 <= 1 and 0 <= t2 <= 1 and 0 <= x0 <= 1
    pre: 0 <= lower <= 3 and 0 <= indent <= 2 and 0 <= trail <= 2
    post: _ == 1
    """
    CNT[0] += 1
    ntracks = conc(ntracks, 1, 3)
    titles = [conc(v, 0, 1) for v in (t0, t1, t2)[:ntracks]] + [0] * (3 - ntracks)
    x0, indent, trail = conc(x0, 0, 1), conc(indent, 0, 2), conc(trail, 0, 2)
    base = _canonical(ntracks, titles, [x0, 0, 0], 0)
    # which lines get a lower-cased keyword: none, all, even lines, odd lines (per-line independence is C17.line + C17.uses)
    lower = conc(lower, 0, 3)
    bits = [(0, 1, 1 - i % 2, i % 2)[lower] for i in range(len(base))]
    with untraced():
        var = []
        for i, ln in enumerate(base):
            s = ln.strip()
            kw, rest = s.split(" ", 1)
            kw = kw.lower() if bits[i] else kw.capitalize() if indent == 1 else kw
            if kw.upper() == "FILE" and bits[i]:
                rest = rest.replace("BINARY", "binary")
            if kw.upper() == "TRACK":                      # the mode word is a keyword too: lower / Capitalised / mIXED like its line's keyword
                num, mode = rest.split(" ", 1)
                mode = mode.lower() if bits[i] else (mode.capitalize() if indent == 1 else (mode[0].lower() + mode[1:] if trail == 2 else mode))
                rest = num + " " + mode
            var.append(["", " ", "\t  "][indent] + kw + ["", " ", "  \t"][trail] + " " + rest + ["", "  ", "\t"][trail])
        want = _meaning(base)
        got = _meaning(var)
        if want == "BAD" or got != want:
            return 0
        # "the image produced from it is therefore the same": track windows of the CDDA image built from either sheet
        from smpl_extract.cdda.image import CompactDiskAudioImageAdapter
        from vf.props.c03 import _Sized

        def windows(lines):
            f = _Sized(40 * 1000 * 1000)
            img = CompactDiskAudioImageAdapter.from_bin_cue(f, cs.parse_cue_sheet([ln + "\n" for ln in lines]))
            return [(t.name, t._data_stream.offset, t._data_stream.end_of_file) for t in img.tracks]
        return 1 if windows(var) == windows(base) and len(windows(base)) == ntracks else 0


def h_reject(kind: int) -> int:
    """
    pre: 0 <= kind <= 2
    post: _ == 1
    """
    CNT[0] += 1
    kind = conc(kind, 0, 2)
    with untraced():
        import os
        import tempfile
        if kind == 0:
            return 1 if _meaning(["  TRACK 01 AUDIO", "    INDEX 01 00:00:00"]) == "BAD" and _meaning([]) == "BAD" else 0
        d = tempfile.mkdtemp(prefix="vf_c17_")
        try:
            fn = os.path.join(d, "x.cue")
            if kind == 1:
                open(fn, "wb").write('FILE "x.bin" BINARY\n  TRACK 01 AUDIO\n    TITLE "caf\xe9"\n    INDEX 01 00:00:00\n'.encode("latin-1"))
                try:
                    actions.parse_text_file(fn)
                    return 0
                except actions.BadTextFile:
                    return 1
            # determine_image_type: a text file that is no cue sheet, or not text at all, is handed to the binary detectors
            rec = []
            names = ("is_mdf_image", "is_mdx_image", "is_roland_s7xx_image", "AkaiImageParser")
            saved = {n: getattr(actions, n) for n in names}
            actions.is_mdf_image = lambda s: False
            actions.is_mdx_image = lambda s: False
            actions.is_roland_s7xx_image = lambda s: False
            actions.AkaiImageParser = lambda s: rec.append(s.name) or "AKAI"
            try:
                open(fn, "wb").write(b"just some text\nwithout a file line\n")
                r1 = actions.determine_image_type(fn)
                open(fn, "wb").write(b"\x00\xff\xfe binary \xe9")
                r2 = actions.determine_image_type(fn)
            finally:
                for n in names:
                    setattr(actions, n, saved[n])
            return 1 if (r1 == "AKAI" and r2 == "AKAI" and rec == [fn, fn]) else 0
        finally:
            import shutil
            shutil.rmtree(d, ignore_errors=True)


# ------------------------------------------------------------------ C17.textfile: parse_text_file hands over EVERY line of the file, whatever its size
class _FakeText:
    """text file of n lines with symbolic lengths, with the documented semantics of the io text API: readlines(hint) stops once the total
    size of the lines read so far exceeds a positive hint; read(size) / readline(size) return at most size characters"""

    def __init__(self, lens):
        self.lens = list(lens)          # characters per line, line terminator included
        self.i = 0                      # next line
        self.off = 0                    # characters of line i already consumed

    def __enter__(self):
        return self

    def __exit__(self, *a):
        return False

    def readlines(self, hint=-1):
        out, total = [], 0
        while self.i < len(self.lens):
            out.append((self.i, self.off, self.lens[self.i]))
            total += self.lens[self.i] - self.off
            self.i, self.off = self.i + 1, 0
            if hint is not None and hint > 0 and total > hint:          # CPython (C io): stops once the size read EXCEEDS the hint
                break
        return out

    def readline(self, size=-1):
        if self.i >= len(self.lens):
            return ""
        rest = self.lens[self.i] - self.off
        if size is not None and 0 <= size < rest:
            piece = (self.i, self.off, self.off + size)
            self.off += size
            return piece
        piece = (self.i, self.off, self.lens[self.i])
        self.i, self.off = self.i + 1, 0
        return piece

    def __iter__(self):
        return self

    def __next__(self):
        r = self.readline()
        if r == "":
            raise StopIteration
        return r

    def read(self, size=-1):
        out = []
        while self.i < len(self.lens) and (size is None or size < 0 or size > 0):
            r = self.readline(size if size is not None and size >= 0 else -1)
            out.append(r)
            if size is not None and size >= 0:
                size -= r[2] - r[1]
        return out


def h_textfile(n: int, l0: int, l1: int, l2: int, l3: int) -> int:
    """
    pre: 1 <= n <= 4 and 1 <= l0 <= 100000 and 1 <= l1 <= 100000 and 1 <= l2 <= 100000 and 1 <= l3 <= 100000
    post: _ == 1
    """
    CNT[0] += 1
    n = conc(n, 1, 4)
    lens = [l0, l1, l2, l3][:n]
    if os.environ.get("VF_REAL"):
        import tempfile
        d = tempfile.mkdtemp(prefix="vf_c17_")
        try:
            fn = os.path.join(d, "big.cue")
            want = ["R" * (ln - 1) + "\n" for ln in lens]
            with open(fn, "w", encoding="ascii", newline="") as f:
                f.write("".join(want))
            got = actions.parse_text_file(fn)
            return 1 if list(got) == want else 0
        finally:
            import shutil
            shutil.rmtree(d, ignore_errors=True)
    fake = _FakeText(lens)
    actions.open = lambda *a, **k: fake           # the module-level name shadows the builtin for parse_text_file only
    try:
        got = actions.parse_text_file("big.cue")
    finally:
        del actions.open
    got = list(got)
    if len(got) != n:
        return 0
    for i, piece in enumerate(got):
        if not (isinstance(piece, tuple) and piece[0] == i and piece[1] == 0 and piece[2] == lens[i]):
            return 0                                # every line, whole, in order
    return 1


RUNS = ["smpl_extract.cuesheet:parse_cue_sheet", "smpl_extract.cuesheet:CueSheetFileAdapter.parse", "smpl_extract.cuesheet:CueSheetTrackAdapter.parse",
        "smpl_extract.cuesheet:get_nonempty_entry", "smpl_extract.actions:parse_text_file", "smpl_extract.actions:determine_image_type"]

META = {
    "assumptions": ["unknown lines are admissible before the FILE line or after a TRACK line (the statement's 'inside a track'); blank lines anywhere",
                    "C17.insert/recase: the sheet is chosen by the solver and then concrete (bounded exhaustive over the decision tree); the symbolic part of "
                    "the claim is C17.line (all casings x blank runs per line pattern) + C17.uses",
                    "blank = space or tab, runs of <= 2"],
    "trusted": ["CPython 3.12", "z3 5.1", "vf.symx regex compiler", "CrossHair 0.0.110"],
    "out_of_claim": ["more than 3 tracks / more than two simultaneous insertions", "multiple FILE sections"],
}


def obligations(tier, seed):
    q = tier == "quick"
    obs = []
    for kind in LINES:
        obs.append(dict(name=f"C17.line/{kind}", engine="P", module="vf.props.c17", func="p_line", params={"kind": kind, "maxrun": 2 if q else 3}, timeout=600, runs=RUNS,
                        sym="case of every keyword letter, every blank character (space/tab); run lengths enumerated", bound=f"blank runs 0..{2 if q else 3}; all 2^len casings", stubs=["SymPattern of the live pattern"]))
    obs.append(dict(name="C17.line/other-keyword", engine="P", module="vf.props.c17", func="p_other", params={}, timeout=600, runs=RUNS,
                    sym="first word (<= 6 letters), rest of the line", bound="words over the letters of the four keywords + P G M; rest <= 5 chars", stubs=["SymPattern"]))
    obs.append(dict(name="C17.uses", engine="P", module="vf.props.c17", func="p_uses", params={}, timeout=60, runs=RUNS, sym="-", bound="AST of cuesheet.py", stubs=[]))
    T = 170 if q else 900
    for nt in (1, 2, 3):
        for two in ((0,) if (q or nt == 3) else (0, 1)):
            if two == 0:
                obs.append(dict(name=f"C17.insert/tracks={nt}/one", module="vf.props.c17", func="h_insert",
                                extra_pre=[f"ntracks == {nt}", "two == 0", "p2 == 0 and c2 == 0"] + (["x0 == 0 and x1 == 0 and x2 == 0 and data_last == 0"] if (q and nt == 3) else []),
                                timeout=T, runs=RUNS, sym="sheet shape, position and kind of the inserted line", bound=f"{nt} track(s); 9 cosmetic lines (blank, tab, REM, PERFORMER, FLAGS, PREGAP, REM lines quoting FILE/TRACK/INDEX text) x every position", stubs=[]))
            else:
                for c in range(9):
                    obs.append(dict(name=f"C17.insert/tracks={nt}/two/first={c}", module="vf.props.c17", func="h_insert", extra_pre=[f"ntracks == {nt}", "two == 1", f"c == {c}", "t2 == 0 and x2 == 0 and x1 == 0"],
                                    timeout=T, runs=RUNS, sym="sheet shape, positions and kinds of two inserted lines", bound=f"{nt} track(s); two insertions", stubs=[]))
    if q:
        obs.append(dict(name="C17.insert/tracks=2/two/blank+rem", module="vf.props.c17", func="h_insert", extra_pre=["ntracks == 2", "two == 1", "c == 0", "c2 == 3", "x0 == 0 and x1 == 0 and data_last == 0"],
                        timeout=T, runs=RUNS, sym="positions of a blank line and a REM line", bound="2 tracks", stubs=[]))
    for nt in (1, 2, 3):
        obs.append(dict(name=f"C17.recase/tracks={nt}", module="vf.props.c17", func="h_recase", extra_pre=[f"ntracks == {nt}"],
                        timeout=T, runs=RUNS, sym="casing pattern (none/all/even/odd lines), indentation and trailing blank style, sheet shape", bound=f"{nt} track(s)", stubs=[]))
    obs.append(dict(name="C17.meaning", module="vf.props.c17", func="h_meaning", extra_pre=[], timeout=T, runs=RUNS,
                    sym="tracks, TITLE presence, INDEX 00 / INDEX 02 presence per track, data track", bound="canonical sheets of 1..3 tracks", stubs=[]))
    obs.append(dict(name="C17.textfile", module="vf.props.c17", func="h_textfile", extra_pre=[], timeout=T, runs=RUNS, sym="length of every line (1..100000 characters)",
                    bound="files of 1..4 lines, any sizes up to 400000 characters", stubs=["text file object with the documented readlines/read/readline semantics"]))
    obs.append(dict(name="C17.reject", module="vf.props.c17", func="h_reject", extra_pre=[], timeout=60, runs=RUNS, sym="case", bound="3 cases", stubs=["temp files", "detector stubs"]))
    return obs
