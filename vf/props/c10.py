"""C10 — every item `ls` shows can be addressed by the names shown; other paths say so.

  C10.addr/*     (symx) raw sibling names (symbolic) -> REAL make_safe_names_routine -> the names `ls` prints; then the REAL Traversable.parse_path
                 (generic and AKAI _sanitize_string) on  blanks name blanks [sep [blanks]]  must return exactly that child whenever the printed
                 name is not blank - which also shows the printed sibling names are distinct as far as addressing goes.
  C10.nested     (symx) two levels: blanks n1 blanks sep blanks n2 blanks [sep] with symbolic separators / \\ \\\\.
  C10.total      (symx) an arbitrary symbolic path string either resolves to a node or raises ErrorInvalidPath - nothing else.
  C10.render     (CrossHair) InfoTable / InfoTree / LeafElement.get_info on items of solver-chosen shape: no exception, one line per leaf.
  C10.action     (CrossHair) ls_action: ErrorInvalidPath -> exactly the message is printed, nothing escapes.
"""
import itertools
import z3
from smpl_extract.structural import Traversable, ErrorInvalidPath, Image
from smpl_extract.akai.image import AkaiImageParser
from smpl_extract.generalized.sample import Sample
from vf.props import c06

CNT = [0]
RAW_ALPHA = [ord(c) for c in "aA1 -.:()#/\\'\t"]
AKAI_ALPHA = [ord(c) for c in "AB1 #+-."]


class _Leaf:
    def __init__(self, safe):
        self.safe_name = safe
        self.name = safe


def _mk_root(sanitize, kids_fn):
    from vf import symx
    tok = Traversable._TOKENIZE_PATH_REGEX

    class Root(Traversable):
        _TOKENIZE_PATH_REGEX = symx.SymPattern(tok.pattern, tok.flags)

        def __init__(self, name, kids):
            self._kids = kids
            self.name = name
            self._path = []
            self._parent = None

        @property
        def children(self):
            return self._kids

    Root.get_info = symx.instrument(Traversable.get_info, {})            # the real listing: the names `ls` prints
    Root.parse_path = symx.instrument(Traversable.parse_path, {"re": symx.ReShim()})
    Root._sanitize_string = symx.instrument(sanitize, {})
    return Root


def _blank(name):
    from vf import symx, sximg
    s, c = sximg.sym_str(name, 1, alphabet=[32, 9])
    return s, c


def p_addr(variant="generic", N=2, L=3, twin=False, timeout=900, exclude=(), only=None, replay=None):
    from vf import symx, sximg
    symx.reset()
    I = sximg.sym_image(summarize=("make_safe_name", "_add_count_to_name"))
    img = I()
    sanitize = Traversable._sanitize_string if variant == "generic" else AkaiImageParser._sanitize_string
    alpha = RAW_ALPHA if variant == "generic" else AKAI_ALPHA
    raws, base = [], []
    for e in range(N):
        s, c = sximg.sym_str(f"r{e}", L, alphabet=alpha, minlen=1)
        raws.append(s)
        base += c
    b0, c0 = _blank("b0")
    b1, c1 = _blank("b1")
    b2, c2 = _blank("b2")
    base += c0 + c1 + c2
    target = z3.Int("target")
    trailing = z3.Int("trailing")              # 0 none, 1 '/', 2 '\\', 3 '\\\\'
    base += [target >= 0, target < N, trailing >= 0, trailing <= 3]
    Root = _mk_root(sanitize, None)
    holder = {}

    def body():
        elems = [Sample(name=raws[e], _path=["d", "x"]) for e in range(N)]
        img.make_safe_names_routine(elems)
        root = Root("", elems)
        rows = root.get_info().rows                              # what `ls` of the directory shows: (name, type) per child
        printed = [symx.SymStr.lift(r[0]) for r in rows]
        if len(printed) != N:
            return z3.BoolVal(True)
        holder["printed"] = printed
        t = 0
        for i in range(N):
            if symx.SymBool(target == i):
                t = i
        tr = 0
        for i in range(4):
            if symx.SymBool(trailing == i):
                tr = i
        name = printed[t]
        path = b0 + name + b1 + ["", "/", "\\", "\\\\"][tr] + (b2 if tr else "")
        nonblank = z3.Not(symx.SymPattern(r"\s*$").match(name).ok)
        try:
            node = root.parse_path(path)
        except ErrorInvalidPath:
            return nonblank                                      # a printed, non-blank name must be addressable
        return z3.And(nonblank, z3.BoolVal(node is not elems[t]))

    def describe(m):
        return {"raw_names": [s.concrete(m) for s in raws], "target": m.eval(target, model_completion=True).as_long(),
                "blanks": [b.concrete(m) for b in (b0, b1, b2)], "trailing": ["", "/", "\\", "\\\\"][m.eval(trailing, model_completion=True).as_long()],
                "variant": variant}

    def rep(cex):
        real = Image.__new__(Image) if cex["variant"] == "generic" else AkaiImageParser.__new__(AkaiImageParser)
        el = [Sample(name=r, _path=["d", "x"]) for r in cex["raw_names"]]
        Image.make_safe_names_routine(real, el)
        holder_root = _RealRoot(cex["variant"], el)
        rows = Traversable.get_info(holder_root).rows
        name = rows[cex["target"]][0]
        cex["printed"] = [r[0] for r in rows]
        if name.strip() == "":
            return False
        b = cex["blanks"]
        path = b[0] + name + b[1] + cex["trailing"] + (b[2] if cex["trailing"] else "")
        cex["path"] = path
        try:
            node = holder_root.parse_path(path)
        except ErrorInvalidPath as e:
            cex["result"] = "not found: %s" % e
            return True
        return node is not el[cex["target"]]
    if replay is not None:
        return {"verdict": "refuted", "reproduced": rep(replay), "cex": replay}
    return symx.run_obligation(body, base, describe, rep, twin=twin, timeout=timeout)


class _RealDir(Traversable):
    def __init__(self, name, kids):
        self._kids, self.name, self._path, self._parent = kids, name, [], None
        self._safe_name = name

    @property
    def children(self):
        return self._kids



def _RealRoot(variant, kids):
    if variant == "generic":
        return _RealDir("", kids)

    class _A(_RealDir):
        _sanitize_string = AkaiImageParser._sanitize_string
    return _A("", kids)


def p_nested(variant="generic", twin=False, timeout=600, exclude=(), only=None, replay=None):
    from vf import symx, sximg
    symx.reset()
    sanitize = Traversable._sanitize_string if variant == "generic" else AkaiImageParser._sanitize_string
    Root = _mk_root(sanitize, None)
    bl, base = [], []
    for i in range(4):
        b, c = _blank(f"b{i}")
        bl.append(b)
        base += c
    sep = z3.Int("sep")
    trailing = z3.Int("trailing")
    base += [sep >= 1, sep <= 3, trailing >= 0, trailing <= 3]
    n1 = "A:" if variant == "akai" else "Vol 1"
    n2 = "KICK 1" if variant == "akai" else "x.y (2)"
    seps = ["", "/", "\\", "\\\\"]

    def body():
        leaf = _Leaf(n2)
        other = _Leaf("KICK" if variant == "akai" else "x.y")
        d0 = Root(n1, [other, leaf])
        d0._safe_name = n1
        d1 = Root("B:" if variant == "akai" else "Vol", [])
        d1._safe_name = d1.name
        root = Root("", [d1, d0])
        s = t = 0
        for i in range(1, 4):
            if symx.SymBool(sep == i):
                s = i
        for i in range(4):
            if symx.SymBool(trailing == i):
                t = i
        first = "a:" if variant == "akai" else n1                    # AKAI: case-insensitive, colon optional
        path = bl[0] + first + bl[1] + seps[s] + bl[2] + (n2.lower() if variant == "akai" else n2) + bl[3] + seps[t]
        try:
            node = root.parse_path(path)
        except ErrorInvalidPath:
            return z3.BoolVal(True)
        return z3.BoolVal(node is not leaf)

    def describe(m):
        return {"blanks": [b.concrete(m) for b in bl], "sep": seps[m.eval(sep, model_completion=True).as_long()],
                "trailing": seps[m.eval(trailing, model_completion=True).as_long()], "variant": variant}

    def rep(cex):
        leaf = _Leaf(n2)
        d0 = _RealRoot(cex["variant"], [_Leaf("KICK" if variant == "akai" else "x.y"), leaf])
        d0._safe_name = n1
        d0.name = n1
        d1 = _RealRoot(cex["variant"], [])
        d1._safe_name = d1.name = "B:" if variant == "akai" else "Vol"
        root = _RealRoot(cex["variant"], [d1, d0])
        b = cex["blanks"]
        first = "a:" if variant == "akai" else n1
        path = b[0] + first + b[1] + cex["sep"] + b[2] + (n2.lower() if variant == "akai" else n2) + b[3] + cex["trailing"]
        try:
            return root.parse_path(path) is not leaf
        except ErrorInvalidPath:
            return True
    if replay is not None:
        return {"verdict": "refuted", "reproduced": rep(replay), "cex": replay}
    return symx.run_obligation(body, base, describe, rep, twin=twin, timeout=timeout)


def p_total(variant="generic", L=5, twin=False, timeout=900, exclude=(), only=None, replay=None):
    from vf import symx, sximg
    symx.reset()
    sanitize = Traversable._sanitize_string if variant == "generic" else AkaiImageParser._sanitize_string
    Root = _mk_root(sanitize, None)
    alpha = [ord(c) for c in "aA: /\\."] + [0x7f]
    path, base = sximg.sym_str("p", L, alphabet=alpha)

    def mk():
        leaf = _Leaf("bb")
        d0 = Root("A:", [leaf])
        d0._safe_name = "A:"
        d1 = Root("a.a", [])
        d1._safe_name = "a.a"
        return Root("", [d0, d1]), d0, d1, leaf

    def body():
        root, d0, d1, leaf = mk()
        try:
            node = root.parse_path(path)
        except ErrorInvalidPath:
            return z3.BoolVal(False)
        except (StopIteration, IndexError, KeyError, ValueError, AttributeError) as e:
            return z3.BoolVal(True)                               # any other exception is an unhandled crash of `ls`
        return z3.BoolVal(not (node is root or node is d0 or node is d1 or node is leaf))

    def describe(m):
        return {"path": path.concrete(m), "variant": variant}

    def rep(cex):
        leaf = _Leaf("bb")
        d0 = _RealRoot(cex["variant"], [leaf])
        d0._safe_name = d0.name = "A:"
        d1 = _RealRoot(cex["variant"], [])
        d1._safe_name = d1.name = "a.a"
        root = _RealRoot(cex["variant"], [d0, d1])
        try:
            node = root.parse_path(cex["path"])
        except ErrorInvalidPath:
            return False
        except Exception as e:
            cex["exception"] = repr(e)
            return True
        return not (node is root or node is d0 or node is d1 or node is leaf)
    if replay is not None:
        return {"verdict": "refuted", "reproduced": rep(replay), "cex": replay}
    return symx.run_obligation(body, base, describe, rep, twin=twin, timeout=timeout)


# ------------------------------------------------------------------ rendering and the ls action (engine X)
def _count_leaves(item):
    if isinstance(item, str):
        return 0
    n = 0
    it = item.items() if isinstance(item, dict) else enumerate(item)
    for _k, v in it:
        n += 1
        if not isinstance(v, str):
            n += _count_leaves(v)
    return n


def h_render(shape: int, a: int, b: int, c: int, wide: int) -> int:
    """
    pre: 0 <= shape <= 5 and 0 <= a <= 3 and 0 <= b <= 3 and 0 <= c <= 3 and 0 <= wide <= 1
    post: _ == 1
    """
    CNT[0] += 1
    from vf.util import conc, untraced
    from smpl_extract.info import InfoTable, InfoTree
    shape, a, b, c, wide = conc(shape, 0, 5), conc(a, 0, 3), conc(b, 0, 3), conc(c, 0, 3), conc(wide, 0, 1)
    with untraced():
        val = "v" * (100 if wide else 3)
        leafs = {"k%d" % i: val for i in range(a)}
        if shape == 0:
            item = leafs
        elif shape == 1:
            item = dict(leafs, sub={"s%d" % i: val for i in range(b)})
        elif shape == 2:
            item = dict(leafs, seq=tuple(val for _ in range(b)))
        elif shape == 3:
            item = dict(leafs, seq=tuple({"z%d" % j: val for j in range(c)} for _ in range(b)))
        elif shape == 4:
            item = dict(leafs, empty=(), emptyd={})
        else:
            item = tuple({"q": val, "r": tuple(val for _ in range(c))} for _ in range(b))
        out = InfoTree(("name", "  ", "type"), item).print_tree()
        lines = out.split("\n")
        if lines[-1] != "":
            return 0
        want = 2 + _count_leaves(item)
        if want <= 300 and len(lines) - 1 != want:
            return 0
        for ln in lines[:-1]:
            if len(ln) > 80:
                return 0
        rows = [("n%d" % i, "t" * (30 if wide else 2)) for i in range(a)]
        tab = InfoTable(("Item", "Type"), rows).print_table()
        if a == 0:
            if tab != "(*empty*)":
                return 0
        elif len(tab.split("\n")) != a + 3:
            return 0
    return 1


def h_action(found: int) -> int:
    """
    pre: 0 <= found <= 1
    post: _ == 1
    """
    CNT[0] += 1
    import io
    import contextlib
    import smpl_extract.actions as actions
    from vf.util import untraced

    class _Info:
        def to_string(self):
            return "INFO"

    class _Item:
        def get_info(self):
            return _Info()

    class _Img(Image):
        def __init__(self):
            self.calls = []

        def set_routines(self, r):
            self.calls.append(sorted(r))

        def parse_path(self, path):
            if found == 1:
                return _Item()
            raise ErrorInvalidPath('The entity "x" was not found in "image".')
    img = _Img()
    buf = io.StringIO()
    with contextlib.redirect_stdout(buf):
        actions.ls_action(img, "x")
    out = buf.getvalue()
    if img.calls != [["make_export_names", "make_safe_names"]]:
        return 0
    if found == 1:
        return 1 if out == "INFO\n" else 0
    return 1 if out == 'The entity "x" was not found in "image".\n' else 0


RUNS = ["smpl_extract.structural:Traversable.parse_path", "smpl_extract.structural:Traversable._sanitize_string",
        "smpl_extract.akai.image:AkaiImageParser._sanitize_string", "smpl_extract.structural:Image.make_safe_name",
        "smpl_extract.structural:Image.make_safe_names_routine", "smpl_extract.structural:Image.sanitize_names_general",
        "smpl_extract.info:InfoTree.print_tree", "smpl_extract.info:InfoTable.print_table", "smpl_extract.actions:ls_action"]

META = {
    "assumptions": ["raw names over a 14-symbol alphabet (a A 1 blank tab - . : ( ) # / \\\\ ') for generic images and over the AKAI character classes (A B 1 blank # + - .) "
                    "for the AKAI variant (AKAI names are upper-case only by format)", "bounded lengths as stated",
                    "blank runs of length <= 1 (blank or tab) at every position where the statement allows blanks"],
    "trusted": ["CPython 3.12", "z3 5.1", "vf.symx (incl. its re.split model, validated against re)", "CrossHair 0.0.110 (render/action)"],
    "out_of_claim": ["rendering of every concrete element class (done per class by C20)", "paths longer than stated in C10.total"],
}


# ------------------------------------------------------------------ C10.image: every row `ls` prints in a whole image is addressable, nothing else is
def h_image(fmt: int, n: int, i0: int, i1: int, i2: int, i3: int, pp: int = 0, lvl: int = 0) -> int:
    """
    pre: 0 <= fmt <= 2 and 2 <= n <= 4 and 0 <= i0 <= 27 and 0 <= i1 <= 27 and 0 <= i2 <= 27 and 0 <= i3 <= 27 and 0 <= pp <= 1 and 0 <= lvl <= 3
    post: _ == 1
    """
    CNT[0] += 1
    from vf.util import conc, untraced
    fmt, n, pp, lvl = conc(fmt, 0, 2), conc(n, 2, 4), conc(pp, 0, 1), conc(lvl, 0, 3)
    idx = [conc(i, 0, 27) for i in (i0, i1, i2, i3)[:n]]
    with untraced():
        from vf import nameimg as N
        from vf.props import c16
        table = (N.AKAI_NAMES, N.ROLAND_NAMES, N.CDDA_TITLES)[fmt]
        if any(i >= len(table) for i in idx):
            return 1
        names = [table[i] for i in idx]
        if (pp == 1 and (fmt != 1 or lvl != 0)) or (lvl > 0 and fmt == 2) or (lvl in (1, 2) and fmt == 0):
            return 1                                     # combinations that do not exist
        # Roland: the performance lists its programs next to the samples they play; pp == 1 names the program like the LAST sample
        img, d, _prefix = N.build(fmt, names, patch_name=names[-1]) if pp == 1 else N.build(fmt, names, level=lvl)
        image = N.open_image(img)
        rows = N.listing_names(c16._do(image, ("ls", d))[1])
        shown = [nm for nm, _t in rows]
        if len(set(shown)) != len(shown):
            return 0                                     # sibling names pairwise distinct
        leaf = ("Track" if fmt == 2 else "Sample", "Performance", "Performance", "Volume")[lvl]
        if len([1 for _nm, t in rows if leaf in t]) != n:
            return 0                                     # every sample / track of the directory is listed
        sep = "/" if d else ""
        D = d + sep
        reached = []
        for nm, typ in rows:
            if not nm.strip():
                continue                                 # a blank printed name is exempt
            for vi, variant in enumerate((D + nm, "  " + D + nm + " ", D + nm + "/", D.replace("/", "\\") + nm, (d + " / " + nm) if d else (" " + nm + " / "))):
                text = c16._do(image, ("ls", variant))[1]
                if "was not found" in text or (lvl == 0 and not text.split("\n")[0].startswith(nm)):
                    return 0                             # the printed name does not resolve / resolves to something shown under another name
                if leaf in typ:
                    who = N.item_of_info(fmt, text, n) if lvl == 0 else N.dir_of_listing(text, n)
                    if who is None:
                        return 0
                    if vi == 0:
                        reached.append(who)
                    elif who != reached[-1]:
                        return 0                         # spelling variants of one path reach different items
                elif typ not in text.split("\n")[0]:
                    return 0
        if len(set(reached)) != len(reached):
            return 0                                     # two printed names resolve to the same sample: some sample is not addressable
        low = {x.strip().lower() for x in shown}
        last = shown[-1]
        for tail in ("nope", last + "x", "x" + last, last[:-1] if len(last) > 1 else "q", last + "/deeper", "\u00e9\u4e2d", last + "\x00", "(" + last + ")"):
            text = c16._do(image, ("ls", D + tail))[1]
            first = tail.split("/")[0].strip().lower()
            if first in low and "/" not in tail:
                continue                                 # the corruption is another sibling's printed name (blanks / case are not significant)
            if "was not found" not in text:
                return 0
        for other in ((d + "x", "x" + d, "\u00e9\u4e2d", "Q:/" + d) if d else ("\u00e9\u4e2d", "Q:/zz")):
            if "was not found" not in c16._do(image, ("ls", other))[1]:
                return 0
    return 1



def obligations(tier, seed):
    q = tier == "quick"
    obs = []

    def pob(name, func, params, sym, bound, timeout):
        return dict(name=name, engine="P", module="vf.props.c10", func=func, params=params, timeout=timeout, runs=RUNS, sym=sym, bound=bound,
                    stubs=["SymPattern for the live patterns", "stub directory nodes"])
    for variant in ("generic", "akai"):
        sizes = ((1, 4), (2, 3) if variant == "generic" else (2, 2)) if q else ((1, 6), (2, 3), (2, 4), (3, 2))
        for N, L in sizes:
            obs.append(pob(f"C10.addr/{variant}/N={N}/len={L}", "p_addr", {"variant": variant, "N": N, "L": L},
                           "raw names of N siblings, which one is addressed, blanks, trailing separator", f"{N} siblings, raw names <= {L}", 500 if q else 1800))
        obs.append(pob(f"C10.nested/{variant}", "p_nested", {"variant": variant}, "blank runs, separator kind, trailing separator", "2-level path over a fixed tree", 300))
        obs.append(pob(f"C10.total/{variant}", "p_total", {"variant": variant, "L": 5 if q else 7}, "every character of the path", f"all paths <= {5 if q else 7} over 8 symbols", 500 if q else 1800))
    for shape in range(6):
        obs.append(dict(name=f"C10.render/shape={shape}", module="vf.props.c10", func="h_render", extra_pre=[f"shape == {shape}"], timeout=170, runs=RUNS,
                        sym="entry counts per level, value width", bound="<= 3 entries per level, depth <= 3", stubs=[]))
    obs.append(dict(name="C10.action", module="vf.props.c10", func="h_action", extra_pre=[], timeout=60, runs=RUNS, sym="found / not found", bound="both", stubs=["stub image"]))
    from vf.props import c06 as _c06
    for o in _c06.image_obligations("C10.image", "vf.props.c10", tier, dup=True, cdda=True, levels=True):
        obs.append(o)
    return obs
