"""C03 — CDDA tracks tile the bin file exactly at the cue sheet's index positions."""
import smpl_extract.actions as actions
from smpl_extract.cuesheet import CueSheetFile, CueSheetTrack, CueSheetIndex, BadCueSheet
from smpl_extract.cdda.image import CompactDiskAudioImageAdapter, CompactDiskAudioImage
from smpl_extract.generalized.wav import WavSampleAdapter
from smpl_extract.formats.wav import RiffStruct
from vf.absfile import mkfile, byte_is, indices

CNT = [0]
SECTOR = 2352            # bytes per CD-DA sector (format constant, independent of the module under test)


def h_msf(m: int, s: int, f: int) -> int:
    """
    pre: 0 <= m <= 10**6 and 0 <= s <= 10**6 and 0 <= f <= 10**6
    post: _ == 1
    """
    CNT[0] += 1
    return 1 if CueSheetIndex(1, m, s, f).get_total_audio_frames() == (m * 60 + s) * 75 + f else 0


def _sheet(n, msf, extra_idx, titled):
    tracks = []
    for i in range(n):
        m, s, f = msf[i]
        idx = [CueSheetIndex(1, m, s, f)]
        if extra_idx[i]:
            idx.append(CueSheetIndex(2, m, s + 1, f))       # later INDEX lines of the same track must be ignored
        tracks.append(CueSheetTrack(i + 1, "AUDIO" if i % 2 == 0 else "audio", "T%d" % i if titled[i] else None, idx))
    return CueSheetFile("x.bin", tracks)


def h_tile(n: int, m0: int, s0: int, f0: int, m1: int, s1: int, f1: int, m2: int, s2: int, f2: int, m3: int, s3: int, f3: int,
           x0: int, x1: int, x2: int, x3: int, t0: int, t1: int, t2: int, t3: int, binlen: int) -> int:
    """
    pre: 1 <= n <= 4
    pre: 0 <= m0 <= 99 and 0 <= s0 <= 59 and 0 <= f0 <= 74 and 0 <= m1 <= 99 and 0 <= s1 <= 59 and 0 <= f1 <= 74
    pre: 0 <= m2 <= 99 and 0 <= s2 <= 59 and 0 <= f2 <= 74 and 0 <= m3 <= 99 and 0 <= s3 <= 59 and 0 <= f3 <= 74
    pre: 0 <= x0 <= 1 and 0 <= x1 <= 1 and 0 <= x2 <= 1 and 0 <= x3 <= 1 and 0 <= t0 <= 1 and 0 <= t1 <= 1 and 0 <= t2 <= 1 and 0 <= t3 <= 1
    pre: 0 <= binlen <= 10**9
    post: _ == 1
    """
    CNT[0] += 1
    n = 1 if n == 1 else (2 if n == 2 else (3 if n == 3 else 4))
    msf = [(m0, s0, f0), (m1, s1, f1), (m2, s2, f2), (m3, s3, f3)][:n]
    F = [(m * 60 + s) * 75 + f for (m, s, f) in msf]
    # statement's pre-condition: strictly increasing first-index times inside the bin file
    for i in range(n - 1):
        if not F[i] < F[i + 1]:
            return 1
    if not SECTOR * F[n - 1] <= binlen:
        return 1
    sheet = _sheet(n, msf, [x0 == 1, x1 == 1, x2 == 1, x3 == 1], [t0 == 1, t1 == 1, t2 == 1, t3 == 1])
    f = mkfile(binlen) if binlen <= 20000 else _Sized(binlen)
    img = CompactDiskAudioImageAdapter.from_bin_cue(f, sheet)
    tr = img.tracks
    if len(tr) != n:
        return 0
    for i in range(n):
        st = tr[i]._data_stream
        lo = SECTOR * F[i]
        hi = SECTOR * F[i + 1] if i + 1 < n else binlen
        if st.substream is not f or st.offset != lo or st.end_of_file != hi - lo or st.position != 0:
            return 0
        if tr[i].num_channels != 2 or tr[i].sample_rate != 44100 or tr[i].bytes_per_sample != 2:
            return 0
    return 1


class _Sized:
    """a file object of which from_bin_cue only asks the size"""

    def __init__(self, size):
        self.size, self.pos = size, 0

    def seek(self, off, whence=0):
        self.pos = off if whence == 0 else (self.pos + off if whence == 1 else self.size + off)
        return self.pos

    def tell(self):
        return self.pos


def h_drain(f0: int, df: int, tail: int, last: int, k: int) -> int:
    """
    pre: 0 <= f0 <= 3 and 1 <= df <= 3 and 0 <= tail <= 5000 and 0 <= last <= 1
    post: _ == 1
    """
    CNT[0] += 1
    # two tracks: [f0, f0+df) and [f0+df, eof); drain either the first (last=0) or the last one (last=1)
    binlen = SECTOR * (f0 + df) + tail
    sheet = CueSheetFile("x.bin", [CueSheetTrack(1, "AUDIO", None, [CueSheetIndex(1, 0, 0, f0)]),
                                  CueSheetTrack(2, "AUDIO", "B", [CueSheetIndex(1, 0, 0, f0 + df)])])
    f = mkfile(binlen)
    img = CompactDiskAudioImageAdapter.from_bin_cue(f, sheet)
    if len(img.tracks) != 2:
        return 0
    t = img.tracks[1] if last == 1 else img.tracks[0]
    g = t.to_generalized()
    cont = WavSampleAdapter(RiffStruct)._encode(g, {}, "")
    chunks = cont["data"]["chunks"]
    fmt = chunks[0]["data"]
    if fmt["channel_cnt"] != 2 or fmt["sample_rate"] != 44100 or fmt["bits_per_sample"] != 16:
        return 0
    gen = chunks[-1]["data"]
    out = []
    total = 0
    for blk in gen:
        if len(blk) % 4 != 0 or len(blk) == 0:
            return 0
        out.append((total, blk))
        total = total + len(blk)
        if len(out) > 6:
            return 0
    lo = SECTOR * (f0 + df) if last == 1 else SECTOR * f0
    n = tail - tail % 4 if last == 1 else SECTOR * df
    if total != n:
        return 0
    for kk in indices(k, n):
        for (b0, blk) in out:
            if b0 <= kk < b0 + len(blk):
                if not byte_is(blk, kk - b0, lo + kk):
                    return 0
    return 1


class _Rec:
    def __init__(self):
        self.calls = []


def h_dispatch(n: int, k0: int, k1: int, k2: int) -> int:
    """
    pre: 1 <= n <= 3 and 0 <= k0 <= 3 and 0 <= k1 <= 3 and 0 <= k2 <= 3
    post: _ == 1
    """
    CNT[0] += 1
    modes = ["AUDIO", "audio", "MODE1/2352", "MODE2/2336"]
    n = 1 if n == 1 else (2 if n == 2 else 3)
    ks = [k0, k1, k2][:n]
    tracks = [CueSheetTrack(i + 1, modes[0 if ks[i] == 0 else (1 if ks[i] == 1 else (2 if ks[i] == 2 else 3))], None,
                            [CueSheetIndex(1, 0, 0, i)]) for i in range(n)]
    sheet = CueSheetFile("x.bin", tracks)
    rec = _Rec()
    saved = (actions.parse_cue_sheet, actions.open, actions.determine_image_type, actions.CompactDiskAudioImageAdapter) \
        if hasattr(actions, "open") else None
    actions.parse_cue_sheet = lambda lines: sheet
    actions.open = lambda path, mode="r": ("stream", path, mode)
    actions.determine_image_type = lambda fs: rec.calls.append(("sampler", fs)) or "SAMPLER"

    class _A:
        @staticmethod
        def from_bin_cue(fs, cue):
            rec.calls.append(("cdda", fs, cue))
            return "CDDA"
    actions.CompactDiskAudioImageAdapter = _A
    try:
        res = actions.attempt_parse_cue_sheet(["ignored"], "d")
    except BadCueSheet:
        res = "BAD"
    all_audio = True
    for kk in ks:
        if kk >= 2:
            all_audio = False
    if all_audio:
        ok = res == "CDDA" and len(rec.calls) == 1 and rec.calls[0][0] == "cdda" and rec.calls[0][2] is sheet \
            and rec.calls[0][1] == ("stream", "d/x.bin", "rb")
    else:
        ok = res == "SAMPLER" and len(rec.calls) == 1 and rec.calls[0] == ("sampler", ("stream", "d/x.bin", "rb"))
    return 1 if ok else 0


# ------------------------------------------------------------------ C03.image: cue text + bin file through the real entry points
def h_image(n: int, d0: int, d1: int, d2: int, pre0: int, tail: int, titled: int) -> int:
    """
    pre: 1 <= n <= 3 and 0 <= d0 <= 2 and 1 <= d1 <= 3 and 1 <= d2 <= 3 and 0 <= pre0 <= 1 and 0 <= tail <= 4 and 0 <= titled <= 1
    post: _ == 1
    """
    CNT[0] += 1
    from vf.util import conc, untraced
    n, d0, d1, d2, pre0, tail, titled = conc(n, 1, 3), conc(d0, 0, 2), conc(d1, 1, 3), conc(d2, 1, 3), conc(pre0, 0, 1), conc(tail, 0, 4), conc(titled, 0, 1)
    with untraced():
        import os
        import shutil
        import struct
        import tempfile
        from vf.props import c16
        F = [d0, d0 + d1, d0 + d1 + d2][:n]                      # first-index sector of each track
        binlen = 2352 * (F[-1] + 2) + (0, 1, 2, 3, 1177)[tail]
        data = bytes((i * 7 + (i >> 8) * 13) & 0xFF for i in range(binlen))
        cue = ['FILE "disc.bin" BINARY']
        for t in range(n):
            cue.append("  TRACK %02d AUDIO" % (t + 1))
            if titled:
                cue.append('    TITLE "Song %d"' % (t + 1))
            cue.append("    INDEX %02d %02d:%02d:%02d" % (0 if (pre0 and t == 1) else 1, 0, F[t] // 75, F[t] % 75))
            if pre0 and t == 1:
                cue.append("    INDEX 01 %02d:%02d:%02d" % (0, (F[t] + 1) // 75, (F[t] + 1) % 75))
        d = tempfile.mkdtemp(prefix="vf_c03_")
        try:
            with open(os.path.join(d, "disc.bin"), "wb") as fh:
                fh.write(data)
            with open(os.path.join(d, "disc.cue"), "w") as fh:
                fh.write("\n".join(cue) + "\n")
            image = actions.determine_image_type(os.path.join(d, "disc.cue"))
            res = c16._do(image, ("export", None))
        finally:
            shutil.rmtree(d, ignore_errors=True)
        got = dict(res[1])
        names = [("Song %d" % (t + 1)) if titled else ("Untitled Track %d" % (t + 1)) for t in range(n)]
        if sorted(got) != sorted("out/%s.wav" % nm for nm in names):
            return 0
        cat = b""
        for t in range(n):
            lo = 2352 * F[t]
            hi = 2352 * F[t + 1] if t + 1 < n else binlen
            want = data[lo:hi]
            want = want[:len(want) - len(want) % 4]
            w = got["out/%s.wav" % names[t]]
            if w[:4] != b"RIFF" or struct.unpack("<I", w[4:8])[0] != len(w) - 8:
                return 0
            k = w.find(b"data")
            pcm = w[k + 8:k + 8 + struct.unpack("<I", w[k + 4:k + 8])[0]]
            fmt = w.find(b"fmt ")
            af, ch, sr, br, ba, bits = struct.unpack("<HHIIHH", w[fmt + 8:fmt + 24])
            if (af, ch, sr, bits) != (1, 2, 44100, 16) or pcm != want:
                return 0
            cat += pcm
        # concatenating the tracks reproduces the bin from the first track onward (up to the final partial frame)
        tot = data[2352 * F[0]:]
        if cat != tot[:len(tot) - len(tot) % 4]:
            return 0
    return 1


RUNS = ["smpl_extract.cuesheet:CueSheetIndex.get_total_audio_frames", "smpl_extract.cdda.image:CompactDiskAudioImageAdapter.from_bin_cue",
        "smpl_extract.cdda.image:AudioTrack.to_generalized", "smpl_extract.actions:attempt_parse_cue_sheet",
        "smpl_extract.generalized.wav:WavSampleAdapter._encode", "smpl_extract.transcoder:make_transcoder",
        "smpl_extract.transcoder:PassthroughTranscoder.__next__", "smpl_extract.transcoder:resize_buffer",
        "smpl_extract.util.stream:StreamOffset", "smpl_extract.util.stream:StreamWrapper.read"]

META = {
    "assumptions": ["statement's pre-condition: first-index times strictly increasing and inside the bin file",
                    "text -> CueSheetFile is C17's subject; tracks are given as parsed objects here",
                    "open()/determine_image_type/from_bin_cue are stubbed by recorders in C03.dispatch"],
    "trusted": ["CPython 3.12", "z3 5.1", "CrossHair 0.0.110", "AbsFile/Spans stub"],
    "out_of_claim": ["more than 4 tracks", "RIFF length prefixes (construct.Prefixed)"],
}


def _ob(name, func, extra, timeout, sym, bound, **kw):
    return dict(name=name, module="vf.props.c03", func=func, extra_pre=list(extra), timeout=timeout, runs=RUNS,
                sym=sym, bound=bound, stubs=kw.pop("stubs", ["AbsFile/Spans"]), **kw)


def obligations(tier, seed):
    q = tier == "quick"
    T = 150 if q else 900
    obs = [_ob("C03.msf", "h_msf", [], T, "minutes, seconds, frames", "each 0..1e6")]
    for n in ((1, 2, 3) if q else (1, 2, 3, 4)):
        obs.append(_ob(f"C03.tile/n={n}", "h_tile", [f"n == {n}"], T,
                       "MSF of every track, extra INDEX lines, TITLE presence, bin length",
                       f"{n} audio tracks, MSF up to 99:59:74, bin <= 1e9 bytes (any length, not only multiples of 2352 or 4)"))
    for last in (0, 1):
        obs.append(_ob(f"C03.drain/last={last}", "h_drain", [f"last == {last}"], T, "first index, track length in sectors, stray tail bytes, byte index",
                       "track of 1..3 sectors / tail of 0..5000 bytes; whole transcoder loop"))
    from vf.props import c17
    for o in c17.obligations(tier, seed):
        if o["name"] == "C17.meaning":
            obs.append(dict(o, name="C03.parse"))       # text -> tracks: first index of a track = its first INDEX line, in file order
    for n in (1, 2, 3):
        obs.append(_ob(f"C03.image/n={n}", "h_image", [f"n == {n}"], T, "index positions, INDEX 00 pregap line, TITLE presence, stray tail bytes",
                       "real cue text + bin file through determine_image_type and export_samples_to_wav; concrete per path", stubs=["temporary files", "export to a temporary directory, read back"]))
    obs.append(_ob("C03.dispatch", "h_dispatch", [], T, "number of tracks and mode of each (AUDIO/audio/MODE1/MODE2)", "<= 3 tracks",
                   stubs=["open/determine_image_type/from_bin_cue recorders"]))
    # every track is exported as its own file whatever its TITLE says (L/R-looking titles, duplicates, none): shared with C06.image/cdda
    from vf.props import c06 as _c06
    for o in _c06.image_obligations("C03.titles", "vf.props.c06", tier, dup=True, cdda=True):
        if "/cdda/" in o["name"]:
            obs.append(dict(o, extra_pre=list(o["extra_pre"]) + ["sc == 0"]))
    return obs
