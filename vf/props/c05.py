"""C05 — left/right pairs merge into one stereo file; no sample is lost or duplicated.

  C05.pair[N]     (symx) real Image.combine_stereo_routine + combine_stereo on N samples with symbolic, pairwise distinct export names: exactly
                  the pairs the STATEMENT defines are merged, L stream first whatever the directory order, named after the stem; every other sample
                  passes through once, unchanged; channels add up to N; no stream object appears twice.
  C05.interleave  = C11.stereo / C12 two-mono obligations: stream 0 -> channel 0, stream 1 -> channel 1, all frames kept for equal lengths.
  C05.level       (CrossHair) real Traversable.export_samples on a stub tree with a recording ExportManager: each level's samples are handed over
                  exactly once and never mixed with another level's.
"""
import itertools
import z3
from smpl_extract.structural import Image, Traversable, ExportManager
from smpl_extract.generalized.sample import Sample
from smpl_extract.base import ElementTypes
from smpl_extract.data_streams import DataStream
from vf.props import c06, c11, c12

CNT = [0]


def _delim(c):
    from vf import symx
    return z3.Or(symx.is_space(c), c == ord("-"))


def _is_pair(a, b):
    """statement: names differ only in a final L / R that is preceded by spaces or hyphens (a is the L name, b the R name)"""
    m = max(a.m, b.m)
    conds = [a.n == b.n, a.n >= 2, a.at(a.n - 1) == ord("L"), b.at(b.n - 1) == ord("R"), _delim(a.at(a.n - 2))]
    for i in range(m):
        ca = a.c[i] if i < a.m else z3.BitVecVal(0, 8)
        cb = b.c[i] if i < b.m else z3.BitVecVal(0, 8)
        conds.append(z3.Or(i >= a.n - 1, ca == cb))
    return z3.And(conds)


def _stem_len(a):
    """length of the common stem of an L/R name: everything before the run of blanks/hyphens that precedes the final letter"""
    k = z3.IntVal(0)
    for i in range(a.m):
        # i is the last non-delimiter position among the first n-1 characters -> stem length i+1
        k = z3.If(z3.And(i < a.n - 1, z3.Not(_delim(a.c[i]))), i + 1, k)
    return k


def p_pair(N=3, L=4, twin=False, timeout=900, exclude=(), only=None, replay=None):
    from vf import symx, sximg
    symx.reset()
    I = sximg.sym_image(summarize=())
    img = I()
    names, base = [], []
    for e in range(N):
        s, c = sximg.sym_str(f"n{e}", L, alphabet=c06.CLASS_ALPHA, minlen=1)
        names.append(s)
        base += c + [c06._in_G(s, True)]
    base += [z3.Not(a.eq(b)) for a, b in itertools.combinations(names, 2)]
    holder = {}

    def body():
        streams = [DataStream(stream="S%d" % e) for e in range(N)]
        elems = [Sample(name="raw%d" % e, _export_name=names[e], _path=["d", "x"], data_streams=[streams[e]], num_channels=1) for e in range(N)]
        outs = img.combine_stereo_routine(elems)
        viol = []
        used = []
        merged_pairs = []
        for o in outs:
            owners = []
            for ds in o.data_streams:
                idx = [e for e in range(N) if ds is streams[e]]
                if len(idx) != 1:
                    return z3.BoolVal(True)                      # a stream that is nobody's
                owners.append(idx[0])
            used += owners
            if any(o is e for e in elems):
                if len(owners) != 1 or o.num_channels != 1:
                    return z3.BoolVal(True)                      # an unpaired sample must pass through unchanged
                continue
            if len(owners) != 2 or o.num_channels != 2:
                return z3.BoolVal(True)
            l, r = owners
            merged_pairs.append((l, r))
            viol.append(z3.Not(_is_pair(names[l], names[r])))    # merged => it is a pair per the statement, L stream first
            fin = symx.SymStr.lift(o.export_name)
            k = _stem_len(names[l])
            stem = symx.SymStr([names[l].at(z3.IntVal(j)) for j in range(names[l].m)], k)
            viol.append(z3.Not(fin.eq(stem)))                    # named after the common stem
        if sorted(used) != list(range(N)):
            return z3.BoolVal(True)                              # a sample lost or duplicated / channels do not add up
        for i, j in itertools.permutations(range(N), 2):
            if (i, j) not in merged_pairs:
                viol.append(_is_pair(names[i], names[j]))        # a pair per the statement that was NOT merged
        return z3.Or(viol) if viol else z3.BoolVal(False)

    def describe(m):
        return {"export_names": [s.concrete(m) for s in names]}

    def rep(cex):
        real = Image.__new__(Image)
        nm = cex["export_names"]
        st = [DataStream(stream="S%d" % i) for i in range(len(nm))]
        el = [Sample(name="raw%d" % i, _export_name=r, _path=["d", "x"], data_streams=[st[i]], num_channels=1) for i, r in enumerate(nm)]
        outs = real.combine_stereo_routine(el)
        got = [(o.export_name, [d.stream for d in o.data_streams]) for o in outs]
        cex["after_pairing"] = got
        # reference on concrete strings
        import re
        want_pairs = {}
        for i, a in enumerate(nm):
            for j, b in enumerate(nm):
                if i != j and len(a) == len(b) and len(a) >= 2 and a[-1] == "L" and b[-1] == "R" and a[:-1] == b[:-1] and (a[-2].isspace() or a[-2] == "-"):
                    want_pairs[(i, j)] = re.sub(r"[\s-]+$", "", a[:-1])
        exp = []
        paired = {x for p in want_pairs for x in p}
        for (i, j), stem in want_pairs.items():
            exp.append((stem, ["S%d" % i, "S%d" % j]))
        for i, a in enumerate(nm):
            if i not in paired:
                exp.append((a, ["S%d" % i]))
        return sorted(map(repr, got)) != sorted(map(repr, exp))
    if replay is not None:
        return {"verdict": "refuted", "reproduced": rep(replay), "cex": replay}
    return symx.run_obligation(body, base, describe, rep, twin=twin, timeout=timeout)


# ------------------------------------------------------------------ C05.level (engine X)
class _Leaf:
    def __init__(self, tag, kind):
        self.tag, self.kind = tag, kind
        self.type_id = ElementTypes.SampleEntry if kind == 0 else ElementTypes.ProgramEntry

    def to_generalized(self):
        return ("G", self.tag)


class _Rec(ExportManager):
    def __init__(self):
        super().__init__("out", {})
        self.events = []

    def export_samples(self):
        self.events.append((self.level, list(self.samples)))
        self.samples.clear()


def h_level(n0: int, k00: int, k01: int, k02: int, n1: int, k10: int, k11: int, k12: int, ndirs: int) -> int:
    """
    pre: 0 <= n0 <= 3 and 0 <= n1 <= 3 and 1 <= ndirs <= 2
    pre: 0 <= k00 <= 1 and 0 <= k01 <= 1 and 0 <= k02 <= 1 and 0 <= k10 <= 1 and 0 <= k11 <= 1 and 0 <= k12 <= 1
    post: _ == 1
    """
    CNT[0] += 1
    from vf.util import conc
    n0, n1, ndirs = conc(n0, 0, 3), conc(n1, 0, 3), conc(ndirs, 1, 2)
    k0 = [conc(k, 0, 1) for k in (k00, k01, k02)[:n0]]
    k1 = [conc(k, 0, 1) for k in (k10, k11, k12)[:n1]]
    # tree shape of every image class: a level holds either directories or files (samples / programs), never both
    kids_a = [_Leaf("a%d" % i, k0[i]) for i in range(n0)]
    kids_b = [_Leaf("b%d" % i, k1[i]) for i in range(n1)]
    dir_a = Traversable(lambda ctx: list(kids_a), path=["R", "A"])
    dir_b = Traversable(lambda ctx: list(kids_b), path=["R", "B"])
    dirs = [dir_a, dir_b][:ndirs]
    root = Traversable(lambda ctx: list(dirs), path=["R"])
    rec = _Rec()
    root.export_samples(rec)
    want = {("R", "A"): [("G", "a%d" % i) for i in range(n0) if k0[i] == 0]}
    if ndirs == 2:
        want[("R", "B")] = [("G", "b%d" % i) for i in range(n1) if k1[i] == 0]
    seen = {}
    for (lvl, smp) in rec.events:
        if len(smp) == 0:
            continue
        if lvl in seen:
            return 0                                   # one hand-over per level
        seen[lvl] = smp
    for lvl in want:
        if seen.get(lvl, []) != want[lvl]:
            return 0                                   # every sample of the level, in directory order, nothing from another level
    for lvl in seen:
        if lvl not in want:
            return 0
    return 1


RUNS = ["smpl_extract.structural:Image.combine_stereo_routine", "smpl_extract.generalized.sample:combine_stereo",
        "smpl_extract.structural:Traversable.export_samples", "smpl_extract.structural:ExportManager.set_level",
        "smpl_extract.structural:ExportManager.add_sample", "smpl_extract.structural:ExportManager.finish_level"] + c12.RUNS

META = {
    "assumptions": ["pair relation taken from the statement: equal length, identical up to the last character, last characters L and R, the character before them a "
                    "blank or hyphen; stem = the name minus the L/R and minus the run of blanks/hyphens in front of it",
                    "export names are pairwise distinct members of the language C06 guarantees (that is C06's conclusion)",
                    "names over the 12-class alphabet, bounded length (see C06)"],
    "trusted": ["CPython 3.12", "z3 5.1", "vf.symx", "CrossHair 0.0.110 (C05.level, C05.interleave)"],
    "out_of_claim": ["more than N siblings / longer names than stated"],
}


# ------------------------------------------------------------------ C05.image: whole AKAI volumes / Roland performances with near-colliding names
SAFE_AKAI = [0, 1, 2, 3, 4, 5, 6, 7, 8, 19, 20, 21, 22]          # classes of nameimg.AKAI_NAMES that are their own export name (no sanitising involved)
SAFE_ROLAND = [0, 1, 2, 3, 4, 5, 6, 7, 12, 17, 22, 27]


def h_image(fmt: int, n: int, i0: int, i1: int, i2: int, i3: int) -> int:
    """
    pre: 0 <= fmt <= 1 and 2 <= n <= 4 and 0 <= i0 <= 27 and 0 <= i1 <= 27 and 0 <= i2 <= 27 and 0 <= i3 <= 27
    post: _ == 1
    """
    CNT[0] += 1
    from vf.util import conc, untraced
    fmt, n = conc(fmt, 0, 1), conc(n, 2, 4)
    idx = [conc(i, 0, 27) for i in (i0, i1, i2, i3)[:n]]
    with untraced():
        from vf import nameimg as N
        from vf.props import c16
        table = N.AKAI_NAMES if fmt == 0 else N.ROLAND_NAMES
        safe = SAFE_AKAI if fmt == 0 else SAFE_ROLAND
        if any(i not in safe for i in idx) or len(set(idx)) != n:
            return 1                                     # names that are their own export names, pairwise distinct (the rest is C06's)
        names = [table[i] for i in idx]
        # what the statement prescribes: L/R pairs -> one two-channel file named after the stem, L in channel 0; everything else mono under its own name
        want, used = {}, set()
        for a in range(n):
            for b in range(n):
                if a != b and N.statement_pair(names[a], names[b]):
                    if N.stem(names[a]) in want:
                        return 1                         # two pairs named after one stem: C06's known finding (F7b), not decided here
                    want[N.stem(names[a])] = [a, b]
                    used |= {a, b}
        for a in range(n):
            if a not in used:
                if names[a] in want:
                    return 1                             # a pair's stem equals another sibling's name: C06's known finding, not decided here
                want[names[a]] = [a]
        img, _d, prefix = N.build(fmt, names)
        _k, files, _log = c16._do(N.open_image(img), ("export", None))
        got = {}
        for path, wav in files:
            ch, data = N.pcm_of(wav)
            if not path.startswith(prefix) or not path.endswith(".wav"):
                return 0
            got[path[len(prefix):-4]] = N.which_samples(fmt, names, ch, data)
        if got != want:
            return 0
    return 1



def obligations(tier, seed):
    q = tier == "quick"
    obs = []
    for N, L in (((2, 5), (3, 4)) if q else ((2, 6), (3, 6), (4, 4))):
        obs.append(dict(name=f"C05.pair/N={N}/len={L}", engine="P", module="vf.props.c05", func="p_pair", params={"N": N, "L": L},
                        timeout=400 if q else 1500, runs=RUNS, sym="export names of N siblings", bound=f"{N} siblings, names <= {L} over the 12-class alphabet, every directory order",
                        stubs=["SymPattern for _STEREO_FILENAME", "tagged DataStream objects"]))
    obs.append(dict(name="C05.level", module="vf.props.c05", func="h_level", extra_pre=[], timeout=170 if q else 600, runs=RUNS,
                    sym="number of sub-directories, children per directory, kind of each child", bound="root with 1..2 directories of <= 3 files (sample/program) each", stubs=["recording ExportManager", "stub leaves"]))
    for o in c11.obligations(tier, seed):
        if o["name"].startswith("C11.stereo"):
            obs.append(dict(o, name=o["name"].replace("C11.stereo", "C05.interleave/streams")))
    for o in c12.obligations(tier, seed):
        if "/ch=1+1/" in o["name"] and "src=LL/dst=L/host=L" in o["name"]:
            obs.append(dict(o, name=o["name"].replace("C12.cfg", "C05.interleave/transcoder")))
    for o in c06.image_obligations("C05.image", "vf.props.c05", tier, dup=False):
        obs.append(o)
    return obs
