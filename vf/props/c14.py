"""C14 — a damaged directory entry affects only that entry.

  C14.align    real FileEntriesAdapter._parse over an abstract table with a NONDETERMINISTIC entry sub-parser: the damaged
               entry consumes a symbolic number of bytes and raises one of the exceptions the real sub-parser can raise.
  C14.byte[f]  real FileEntryConstruct + FileEntriesAdapter on a concrete 4-entry table in BytesIO with ONE symbolic byte in
               field f of a middle entry (made concrete at construct's C boundary: the solver walks all 256 values).
  C14.volume   real Volume._realize_files with entries whose lazy parse raises a symbolically chosen exception.
  C14.roland   real SafeListConstruct._parse / the four-reference loop of PartialEntryAdapter._parse with failing sub-parsers.
"""
import io
from io import SEEK_SET, SEEK_CUR, SEEK_END
from construct.core import (ConstructError, StreamError, MappingError, RangeError, Construct, Pass, ExplicitError, ValidationError)
from construct.lib.containers import Container, ListContainer
import smpl_extract.akai.file_entry as fe
from smpl_extract.akai.file_entry import InvalidFileEntry, FileEntry
from smpl_extract.akai.akai_string import char_ascii_to_akai
from smpl_extract.akai.volume import Volume
from smpl_extract.util.fat import RequestedInvalidSector
from smpl_extract.util.constructs import SafeListConstruct
import smpl_extract.roland.s7xx.partial_entry as pe
from vf.absfile import AbsFile
from vf.util import conc, untraced

CNT = [0]
ENTRY = 24
_ORIG_INT16 = fe.Int16ul


class Table:
    """abstract directory table: only the cursor matters; bytes are read through the stubs only"""

    def __init__(self, n, slack):
        self.size = n * ENTRY + slack
        self.pos = 0

    def tell(self):
        return self.pos

    def seek(self, off, whence=SEEK_SET):
        if whence == SEEK_SET:
            p = off
        elif whence == SEEK_CUR:
            p = self.pos + off
        else:
            p = self.size + off
        self.pos = p
        return p

    def read(self, n):
        raise AssertionError("table bytes are only read through the stubs")


class StubInt16:
    """end-flag probe stub: consumes 2 bytes where the real Int16ul would; never reports the end flag"""

    @staticmethod
    def parse_stream(stream, **kw):
        if stream.pos + 2 > stream.size:
            raise StreamError("eof")
        stream.pos = stream.pos + 2
        return 0


EXC = [ConstructError, StreamError, MappingError, RequestedInvalidSector, ValidationError]


class StubEntry(Construct):
    """nondeterministic entry parser: entry `bad` consumes `consumed` (0..24) bytes and raises EXC[exc]"""

    def __init__(self, bad, consumed, exc, log):
        super().__init__()
        self.bad, self.consumed, self.exc, self.log = bad, consumed, exc, log

    def _sizeof(self, context, path):
        return ENTRY

    def _parse(self, stream, context, path):
        at = stream.tell()
        self.log.append(at)
        idx = len(self.log) - 1
        if idx == self.bad:
            stream.seek(self.consumed, SEEK_CUR)
            raise EXC[self.exc]("damaged entry")
        stream.seek(ENTRY, SEEK_CUR)
        return Container(name="N%d" % idx, file_type=0x73, size=10, start=1 + idx, file_stream=AbsFile(100))


def h_align(n: int, bad: int, consumed: int, exc: int, slack: int) -> int:
    """
    pre: 2 <= n <= 5 and 0 <= bad < n and 0 <= consumed <= 24 and 0 <= exc <= 4 and 0 <= slack <= 23
    post: _ == 1
    """
    CNT[0] += 1
    n, bad, exc = conc(n, 2, 5), conc(bad, 0, 4), conc(exc, 0, 4)
    fe.Int16ul = StubInt16
    try:
        log = []
        ad = fe.FileEntriesAdapter(None, StubEntry(bad, consumed, exc, log))
        ctx = Container(_elem_parent=None, _elem_routines={}, sat=None)
        entries = ad._parse(Table(n, slack), ctx, "")
    finally:
        fe.Int16ul = _ORIG_INT16
    if len(log) != n:
        return 0
    for i in range(n):
        if log[i] != i * ENTRY:
            return 0                           # every entry must be parsed from its own 24-byte slot
    want = ["N%d" % i for i in range(n) if i != bad]
    got = [e.name for e in entries]
    return 1 if got == want else 0


# ------------------------------------------------------------------ one symbolic byte through the real construct parsers
import struct as _struct
from smpl_extract.akai.sat import SegmentAllocationTable
from smpl_extract.akai.volume import VolumeBodyConstruct
from smpl_extract.akai.data_types import VolumeType
from smpl_extract.util.fat import SectorLink

SS = 8192
NFILES = 4


def _name(text):
    return char_ascii_to_akai(text.ljust(12))


def _sample_file(name, pcm):
    count = len(pcm) // 2
    h = bytes([3, 0, 60]) + _name(name) + bytes(4) + bytes([2, 0, 0]) + bytes(4)
    h += _struct.pack("<III", count, 0, count) + bytes(12 * 8) + bytes(4) + _struct.pack("<H", 44100)
    return h + pcm


def _build_volume():
    """a tiny concrete AKAI volume: file table in sector 1, four one-sector sample files in sectors 2..5"""
    sector_cnt = 2 + NFILES + 2
    image = bytearray(sector_cnt * SS)
    table = bytearray()
    files = []
    types = [0xF3, 0x73, 0xF3, 0x73]
    for i in range(NFILES):
        name = "SAMPLE %d" % i
        pcm = bytes(((i * 37 + j) & 0xFF) for j in range(64))
        content = _sample_file(name, pcm)
        image[(2 + i) * SS:(2 + i) * SS + len(content)] = content
        table += _name(name) + bytes(4) + bytes([types[i]]) + len(content).to_bytes(3, "little") + _struct.pack("<H", 2 + i) + bytes(2)
        files.append((name, pcm))
    image[SS:SS + len(table)] = table
    return image, files, sector_cnt


_IMAGE, _FILES, _SECTORS = _build_volume()


def _list_volume(image):
    """names and audio of every sample the real parsers list for the volume (ls + export of the directory)"""
    stream = io.BytesIO(bytes(image))
    sat = SegmentAllocationTable(stream, _SECTORS, [SectorLink() for _ in range(_SECTORS)])
    volume = Volume(name="VOL", volume_type=VolumeType.VOLUME_S3000, path=["VOL"])
    body = VolumeBodyConstruct.parse_stream(sat.get_segment(1), _=Container(sat=sat), sat=sat, _elem_parent=volume, _elem_routines={})
    volume.file_entries = body.file_entries
    out = []
    for f in volume.files:
        ds = getattr(f, "_data_stream", None)
        if ds is None:
            out.append((f.name, None))
            continue
        ds.seek(0, 0)
        out.append((f.name, ds.readall()))
    return out


def h_byte(entry: int, off: int, b: int) -> int:
    """
    pre: 1 <= entry <= 2 and 0 <= off <= 23 and 0 <= b <= 255
    post: _ == 1
    """
    CNT[0] += 1
    entry, off, b = conc(entry, 1, 2), conc(off, 0, 23), conc(b, 0, 255)     # concrete per path: the parser works on real bytes
    with untraced():                         # everything is concrete from here on
        dmg = bytearray(_IMAGE)
        dmg[SS + entry * ENTRY + off] = b
        try:
            listed = _list_volume(dmg)
        except Exception:                    # an exception escaping here takes the whole directory down: a violation
            return 0
        for i in range(NFILES):
            if i != entry and _FILES[i] not in listed:
                return 0                     # every other item still listed under its name, audio unchanged
        if len(listed) > NFILES:
            return 0
    return 1


# ------------------------------------------------------------------ Roland: one symbolic byte in one sample's directory / parameter record
_RMODEL = {}
_RBASE = {}


def _roland_model(mode=0):
    """three samples in one performance; the middle one (the one that gets damaged) plays in loop mode `mode`"""
    if mode not in _RMODEL:
        from vf import rolandw
        from vf.props import c02
        model = {"volumes": [("VolA", [0])], "performances": [("Perf0", [0])], "patches": [("Patch0", [0])],
                 "partials": [("Part0", [0, 1, 2])],
                 "samples": [dict(name="Smp0", words=c02._words(500, 1)), dict(name="Smp1", words=c02._words(5000, 2), chain=[2, 1, 0], cluster_top=1, mode=mode),
                             dict(name="Smp2", words=c02._words(300, 3), mode=5)]}
        _RMODEL[mode] = rolandw.build(model)
    return _RMODEL[mode]


def _roland_listing(img):
    from vf.props import c16
    import smpl_extract.actions as actions
    image = actions.determine_image_type(io.BufferedReader(io.BytesIO(bytes(img))))
    ls = c16._do(image, ("ls", "VolA/Perf0"))[1]
    names = [ln.split("  ")[0].strip() for ln in ls.split("\n")[2:] if ln.strip()]
    exp = dict(c16._do(image, ("export", None))[1])
    return names, exp


def h_roland_byte(area: int, off: int, b: int, mode: int = 0) -> int:
    """
    pre: 0 <= area <= 1 and 0 <= off <= 47 and 0 <= b <= 255 and 0 <= mode <= 6
    post: _ == 1
    """
    CNT[0] += 1
    area, off, b, mode = conc(area, 0, 1), conc(off, 0, 47), conc(b, 0, 255), conc(mode, 0, 6)
    with untraced():
        from vf import rolandw
        if area == 0 and off >= 32:
            return 1
        img = bytearray(_roland_model(mode))
        if mode not in _RBASE:
            _RBASE[mode] = _roland_listing(img)
        names0, exp0 = _RBASE[mode]
        base = (rolandw.DIR["sample"][0] + 0x20 * 1) if area == 0 else (rolandw.PAR["sample"][0] + 0x30 * 1)      # sample 1's records
        img[base + off] = b
        try:
            names1, exp1 = _roland_listing(img)
        except Exception:
            return 0                                     # the whole directory became unreadable
        for keep in ("Smp0", "Smp2"):
            if keep not in names1:
                return 0                                 # every other item still listed under its original name
            path = "out/VolA/Perf0/%s.wav" % keep
            if exp1.get(path) != exp0[path]:
                return 0                                 # ... and its audio exported unchanged
    return 1


# ------------------------------------------------------------------ Volume._realize_files
VEXC = [ConstructError, StreamError, MappingError, InvalidFileEntry, ValidationError, RangeError]


def h_volume(n: int, bad: int, exc: int, bad2: int) -> int:
    """
    pre: 1 <= n <= 5 and 0 <= bad < n and 0 <= exc <= 5 and 0 <= bad2 < n
    post: _ == 1
    """
    CNT[0] += 1
    n, bad, exc, bad2 = conc(n, 1, 5), conc(bad, 0, 4), conc(exc, 0, 5), conc(bad2, 0, 4)

    def mk(i):
        def content():
            if i == bad or i == bad2:
                raise VEXC[exc]("damaged file %d" % i)
            return "FILE%d" % i
        return FileEntry("N%d" % i, 0x73, content)
    v = Volume(name="V", file_entries=[mk(i) for i in range(n)])
    v._realize_files()
    want = ["FILE%d" % i for i in range(n) if i != bad and i != bad2]
    return 1 if (v._files == want and v._is_files_realized) else 0


# ------------------------------------------------------------------ Roland tolerant lists
REXC = [ConstructError, StreamError, UnicodeDecodeError, KeyError, IndexError, MappingError]


class _FailingSub(Construct):
    def __init__(self, bad, bad2, exc):
        super().__init__()
        self.bad, self.bad2, self.exc, self.n = bad, bad2, exc, 0

    def _parse(self, stream, context, path):
        i = self.n
        self.n += 1
        if i == self.bad or i == self.bad2:
            if REXC[self.exc] is UnicodeDecodeError:
                raise UnicodeDecodeError("ascii", b"\xff", 0, 1, "damaged")
            raise REXC[self.exc]("damaged record %d" % i)
        return "REC%d" % i


def h_safelist(n: int, bad: int, bad2: int, exc: int) -> int:
    """
    pre: 1 <= n <= 5 and 0 <= bad < n and 0 <= bad2 < n and 0 <= exc <= 5
    post: _ == 1
    """
    CNT[0] += 1
    n, bad, bad2, exc = conc(n, 1, 5), conc(bad, 0, 4), conc(bad2, 0, 4), conc(exc, 0, 5)
    lst = SafeListConstruct(n, _FailingSub(bad, bad2, exc))
    got = lst._parse(io.BytesIO(b""), Container(), "")
    want = ["REC%d" % i for i in range(n) if i != bad and i != bad2]
    return 1 if list(got) == want else 0


PEXC = [ConstructError, StreamError, UnicodeDecodeError, MappingError]


class _RefParser:
    """stands for SampleEntryReferenceAdapter(Pass): fails for the damaged reference(s)"""
    bad = bad2 = exc = None

    def __init__(self, subcon):
        pass

    def _parse(self, stream, ctx, path):
        i = ctx["ref_container"]
        if i == _RefParser.bad or i == _RefParser.bad2:
            if PEXC[_RefParser.exc] is UnicodeDecodeError:
                raise UnicodeDecodeError("ascii", b"\xff", 0, 1, "damaged")
            raise PEXC[_RefParser.exc]("damaged sample record")
        return "REF%d" % i


class _PartialSub(Construct):
    def _parse(self, stream, context, path):
        par = Container(sample_1=1, sample_2=2, sample_3=3, sample_4=4, name="P")
        return Container(parameter=par, directory=Container(name="D"))


def h_partial(bad: int, bad2: int, exc: int) -> int:
    """
    pre: 1 <= bad <= 4 and 1 <= bad2 <= 4 and 0 <= exc <= 3
    post: _ == 1
    """
    CNT[0] += 1
    bad, bad2, exc = conc(bad, 1, 4), conc(bad2, 1, 4), conc(exc, 0, 3)
    _RefParser.bad, _RefParser.bad2, _RefParser.exc = bad, bad2, exc
    saved = (pe.SampleEntryReferenceAdapter, pe.get_common_field_args, pe.PartialEntry)
    got = {}

    def fake_partial(**kw):
        got.update(kw)
        return "PARTIAL"
    pe.SampleEntryReferenceAdapter = _RefParser
    pe.get_common_field_args = lambda cls, par: {}
    pe.PartialEntry = fake_partial
    try:
        res = pe.PartialEntryAdapter(_PartialSub())._parse(io.BytesIO(b""), Container(_=Container(_dir_version=1)), "")
    finally:
        pe.SampleEntryReferenceAdapter, pe.get_common_field_args, pe.PartialEntry = saved
    want = ["REF%d" % i for i in (1, 2, 3, 4) if i != bad and i != bad2]
    return 1 if (res == "PARTIAL" and got.get("sample_entry_references") == want) else 0


RUNS = ["smpl_extract.akai.file_entry:FileEntriesAdapter._parse", "smpl_extract.akai.file_entry:FileEntryConstruct",
        "smpl_extract.akai.volume:Volume._realize_files", "smpl_extract.akai.file_entry:FileEntry.file",
        "smpl_extract.util.constructs:SafeListConstruct._parse", "smpl_extract.roland.s7xx.partial_entry:PartialEntryAdapter._parse"]

META = {
    "assumptions": ["a failing construct sub-parser leaves the stream wherever the failing field was being read (0..24 bytes into the entry)",
                    "exception types a sub-parser can raise: ConstructError and its subclasses (construct wraps stream errors into StreamError), "
                    "RequestedInvalidSector; for Roland records additionally UnicodeDecodeError/KeyError/IndexError",
                    "C14.byte: the symbolic byte is made concrete at construct's C boundary; the obligation is the solver walking all values of that byte"],
    "trusted": ["CPython 3.12", "z3 5.1", "CrossHair 0.0.110", "construct 2.10"],
    "out_of_claim": ["audio of the neighbours (their streams are C01/C07's subject; here: names, types, order)", "Roland directory/parameter record bytes (the 2.8 MB minimum image is out of reach symbolically)"],
}


def obligations(tier, seed):
    q = tier == "quick"
    T = 170 if q else 900

    def ob(name, func, pre, sym, bound, **kw):
        return dict(name=name, module="vf.props.c14", func=func, extra_pre=pre, timeout=T, runs=RUNS, sym=sym, bound=bound,
                    stubs=kw.pop("stubs", []), **kw)
    obs = []
    for n in ((3, 4) if q else (2, 3, 4, 5)):
        obs.append(ob(f"C14.align/n={n}", "h_align", [f"n == {n}"], "damaged entry index, bytes consumed before the error, exception type, trailing slack",
                      f"tables of {n} entries", stubs=["nondeterministic entry sub-parser", "Int16ul end-flag stub", "abstract table stream"]))
    fields = {"name": range(0, 12), "pad": range(12, 16), "type": (16,), "size": (17, 18, 19), "start": (20, 21), "pad2": (22, 23)}
    for entry in (1, 2):
        for fname, offs in fields.items():
            for off in offs:
                if q and entry != 1 and off not in (9, 16, 17, 20):
                    continue
                obs.append(ob(f"C14.byte/entry={entry}/{fname}@{off}", "h_byte", [f"entry == {entry}", f"off == {off}"],
                              "one byte of the entry", "all 256 values of that byte (realised at construct's C boundary)", stubs=["stub SAT"]))
    dir_offs = list(range(32)) if not q else [0, 3, 15, 16, 17, 18, 28, 29, 30, 31]
    par_offs = list(range(48)) if not q else [0, 16, 19, 24, 27, 36, 40, 41, 42, 44, 45]
    for mode in range(7):
        key = mode != 0                          # every mode on the bytes that steer the audio window; mode 0 on the whole list (quick: a subset)
        for area, offs in ((0, [3, 28, 30] if key else dir_offs), (1, [18, 19, 26, 27, 36, 40] if key else par_offs)):
            for off in offs:
                obs.append(ob(f"C14.roland-byte/mode={mode}/{('directory', 'parameter')[area]}@{off}", "h_roland_byte", [f"area == {area}", f"off == {off}", f"mode == {mode}"],
                              "one byte of sample 1's record", f"all 256 values of that byte; damaged sample in loop mode {mode}; whole S-770 image through ls + export",
                              stubs=["independent S-770 writer"]))
    obs.append(ob("C14.volume", "h_volume", [], "number of entries, which one/two fail, exception type", "<= 5 entries, 6 exception types"))
    obs.append(ob("C14.roland/safelist", "h_safelist", [], "count, failing positions, exception type", "<= 5 records, 6 exception types", stubs=["failing sub-parser"]))
    obs.append(ob("C14.roland/partial-refs", "h_partial", [], "failing references, exception type", "4 references, 4 exception types",
                  stubs=["failing SampleEntryReferenceAdapter", "PartialEntry recorder"]))
    return obs
