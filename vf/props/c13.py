"""C13 — `ls` and `export` terminate with bounded resources on any input file.

Decided part (DESIGN.md 2/C13): every loop named in the anchors has a variant that the solver checks as an UNWINDING
ASSERTION - a fuel counter that would be exhausted is shown unreachable for every input in the bound.  The clause "CPU
time and memory proportional to the size of the image" for whole-program runs on arbitrary bytes is a measurement and is
outside this technique; what is claimed is: the anchored loops run at most f(n) iterations, f linear (quadratic bound
n^2+2n+8 for the AKAI SAT decoder's table reads, observed linear).
"""
from io import SEEK_SET
from construct.core import Construct, ConstructError
from construct.lib.containers import Container
import smpl_extract.cuesheet as cs
import smpl_extract.akai.image as aimg
from smpl_extract.akai.partition import PartitionAdapter, InvalidPartition
from smpl_extract.util.stream import StreamOffset, StreamWrapper
from smpl_extract.util.fat import FileStream
from vf.absfile import mkfile, AbsFile
import z3
from vf.util import conc
from vf.props import c07, c14

CNT = [0]


class Fuel(Exception):
    pass


# ------------------------------------------------------------------ C13.cue
LINE_KINDS = ['FILE "a.bin" BINARY', '  TRACK 01 AUDIO', '    INDEX 01 00:00:00', '    TITLE "t"', 'REM x', '   ', 'garbage "',
              'TRACK 02 MODE1/2352']
_ORIG_GNE = cs.get_nonempty_entry


def h_cue(n: int, k0: int, k1: int, k2: int, k3: int, k4: int) -> int:
    """
    pre: 0 <= n <= 5
    pre: 0 <= k0 <= 7 and 0 <= k1 <= 7 and 0 <= k2 <= 7 and 0 <= k3 <= 7 and 0 <= k4 <= 7
    post: _ == 1
    """
    CNT[0] += 1
    n = conc(n, 0, 5)
    ks = [conc(k, 0, 7) for k in (k0, k1, k2, k3, k4)[:n]]
    lines = [LINE_KINDS[k] for k in ks]
    calls = [0]
    budget = 3 * n + 2                   # a line is looked at up to three times: peeked by the FILE loop, parsed by the track parser, pushed back

    def counting(ls):
        calls[0] += 1
        if calls[0] > budget:
            raise Fuel()
        before = len(ls)
        text, rest = _ORIG_GNE(ls)
        if before > 0 and len(rest) >= before:
            raise Fuel()                     # every call on a non-empty list must consume at least one line
        return text, rest
    cs.get_nonempty_entry = counting
    try:
        try:
            r = cs.parse_cue_sheet(list(lines))
        except cs.BadCueSheet:
            return 1
        except Fuel:
            return 0
    finally:
        cs.get_nonempty_entry = _ORIG_GNE
    return 1 if isinstance(r, cs.CueSheetFile) else 0


# ------------------------------------------------------------------ C13.scan
class _StubPartitionStruct(Construct):
    """nondeterministic partition body: call i either fails (bad magic) or yields a header with size word sizes[i] and leaves
    the stream at start + size*8192, as the real Struct's trailing Lazy(...) does"""

    def __init__(self, sizes, fails, log):
        super().__init__()
        self.sizes, self.fails, self.log = sizes, fails, log

    def _parse(self, stream, context, path):
        i = len(self.log)
        if i >= len(self.sizes):
            raise Fuel()
        at = stream.tell()
        self.log.append(at)
        if self.fails[i]:
            stream.seek(at + 202, SEEK_SET)
            raise ConstructError("bad magic")
        size = self.sizes[i]
        stream.seek(at + size * 8192, SEEK_SET)
        return Container(header=Container(size=size), sat=lambda: None, volumes=lambda: [])


def h_scan(fsize: int, s0: int, s1: int, s2: int, s3: int, s4: int, f0: int, f1: int, f2: int, f3: int, f4: int) -> int:
    """
    pre: 0 <= fsize <= 4 * 8192 + 100
    pre: 0 <= s0 <= 65535 and 0 <= s1 <= 65535 and 0 <= s2 <= 65535 and 0 <= s3 <= 65535 and 0 <= s4 <= 65535
    pre: 0 <= f0 <= 1 and 0 <= f1 <= 1 and 0 <= f2 <= 1 and 0 <= f3 <= 1 and 0 <= f4 <= 1
    post: _ == 1
    """
    CNT[0] += 1
    f = mkfile(fsize)
    log = []
    stub = PartitionAdapter(_StubPartitionStruct([s0, s1, s2, s3, s4, 1], [f0 == 1, f1 == 1, f2 == 1, f3 == 1, f4 == 1, False], log))
    saved = aimg.PartitionParser
    aimg.PartitionParser = stub
    try:
        img = aimg.AkaiImageParser(f)
        img._routines = {}
        try:
            img._load_partitions()
        except Fuel:
            return 0                      # more than 5 scan iterations over a file of at most 4 sectors (+100 bytes)
    finally:
        aimg.PartitionParser = saved
    # variant: every successful iteration starts strictly after the previous one
    for i in range(1, len(log)):
        if not log[i] > log[i - 1]:
            return 0
    # partitions parsed before the first unparsable header are kept, later ones are not looked at (C15.scan)
    sizes = [s0, s1, s2, s3, s4, 1]
    fails = [f0 == 1, f1 == 1, f2 == 1, f3 == 1, f4 == 1, False]
    good = 0
    for i in range(len(log)):
        if fails[i] or sizes[i] <= 0:
            break
        good += 1
    if len(img._partitions) != good:
        return 0
    if good < len(log) and len(log) != good + 1:
        return 0
    return 1


# ------------------------------------------------------------------ C13.read
def h_readall(size: int, off: int, blen: int, kind: int, s0: int, s1: int) -> int:
    """
    pre: 0 <= size <= 3 * 4096 + 5 and 0 <= off <= 100 and 1 <= blen <= 4096 and 0 <= kind <= 1
    pre: 0 <= s0 <= 3 and 0 <= s1 <= 3 and s0 != s1
    pre: size <= 3 * blen + 5
    post: _ == 1
    """
    CNT[0] += 1
    f = mkfile(5 * 8192)
    if kind == 0:
        s = StreamOffset(f, size, off, buffer_length=blen)
        length = size
    else:
        s = StreamWrapper(FileStream(f, 8192, [s0, s1]), size, buffer_length=blen)
        length = size
    r = s.read(-1)                        # -> readall
    if len(r) != length:
        return 0
    # iterations: one per full block, one for the tail, one empty read that ends the loop
    if hasattr(f, "nreads") and kind == 0 and f.nreads > length // blen + 2:
        return 0
    return 1


RUNS = ["smpl_extract.cuesheet:parse_cue_sheet", "smpl_extract.cuesheet:CueSheetFileAdapter.parse", "smpl_extract.cuesheet:CueSheetTrackAdapter.parse",
        "smpl_extract.cuesheet:get_nonempty_entry", "smpl_extract.akai.image:AkaiImageParser._load_partitions",
        "smpl_extract.akai.partition:PartitionAdapter._parse", "smpl_extract.util.stream:StreamWrapper.readall",
        "smpl_extract.akai.file_entry:FileEntriesAdapter._parse"] + c07.RUNS

META = {
    "assumptions": ["termination = unwinding assertion: a fuel counter linear in the input size is never exhausted",
                    "C13.scan: the partition body parser is a nondeterministic stub that leaves the stream at start + size*8192 "
                    "(what the real Struct's trailing Lazy field does) or fails after the 202-byte header",
                    "C13.cue: lines are drawn from 8 line kinds (FILE, TRACK audio/data, INDEX, TITLE, REM, blank, garbage)"],
    "trusted": ["CPython 3.12", "z3 5.1", "CrossHair 0.0.110", "loops inside construct and numpy"],
    "out_of_claim": ["whole-program CPU seconds / peak memory on arbitrary bytes (a measurement; not applicable to bounded symbolic checking)",
                     "keygroup next-address chains inside construct (ProgramParser)", "tables larger than the stated sizes"],
}


# ------------------------------------------------------------------ C13.drain: exporting a sample whose header points are ARBITRARY ends, and emits no more than the chain holds
def h_drain_roland(mode: int, c0: int, c1: int, start: int, s_end: int, r_end: int) -> int:
    """
    pre: 0 <= mode <= 7
    pre: 2 <= c0 <= 30 and 2 <= c1 <= 30 and c0 != c1
    pre: 0 <= start < 2**24 and 0 <= s_end < 2**24 and 0 <= r_end < 2**24
    post: _ == 1
    """
    CNT[0] += 1
    from vf.props import c02
    from vf.absfile import mkfile
    from smpl_extract.roland.s7xx.fat import RolandFile
    from smpl_extract.roland.s7xx.sample_file import SampleFile
    from smpl_extract.roland.s7xx.sample_entry import SampleParamLoopPoint as P
    from smpl_extract.roland.s7xx.data_types import RolandLoopMode
    from smpl_extract.util.stream import StreamOffset
    from smpl_extract.generalized.wav import WavSampleAdapter
    from smpl_extract.formats.wav import RiffStruct
    c02._shim()
    mode = conc(mode, 0, 7)
    LR, DATA0 = c02.LR, c02.DATA0
    f = mkfile(DATA0 + 32 * LR)
    data = StreamOffset(f, 32 * LR, DATA0)
    rf = RolandFile(data, [c0, c1])
    lm = RolandLoopMode(mode) if mode <= 6 else 9
    sf = SampleFile(loop_mode=lm, start_sample=P(0, start), sustain_loop_start=P(0, 0), sustain_loop_end=P(0, s_end),
                    release_loop_start=P(0, 0), release_loop_end=P(0, r_end), name="x", _data_stream=rf, _path=["v", "p", "x"])
    total = blocks = 0
    try:
        g = sf.to_generalized()
        cont = WavSampleAdapter(RiffStruct)._encode(g, {}, "")
        for blk in cont["data"]["chunks"][-1]["data"]:
            total += len(blk)
            blocks += 1
            # unwinding assertion: the chain holds 2 clusters; an export that has produced more than that (or an empty block without
            # stopping) is re-reading and would go on for ever
            if total > 2 * LR or len(blk) == 0 or blocks > 2 * LR // 2 + 2:
                return 0
    except Exception:
        return 1                                    # "finishes with an error" is allowed
    return 1


def h_drain_akai(nsec: int, s0: int, s1: int, fsize: int, start: int, end: int) -> int:
    """
    pre: 1 <= nsec <= 2
    pre: 1 <= s0 <= 40 and 1 <= s1 <= 40 and s0 != s1
    pre: 0 <= fsize <= 0xFFFFFF and 0 <= start <= 0xFFFFFFFF and 0 <= end <= 0xFFFFFFFF
    post: _ == 1
    """
    CNT[0] += 1
    from vf.props import c01
    from vf.absfile import mkfile
    nsec = conc(nsec, 1, 2)
    f = mkfile(60 * c01.L_A)
    chain = [s0, s1][:nsec]
    total = blocks = 0
    try:
        smp = c01.build_sample(f, 2, 50, chain, fsize, start, end, s0)     # header size / play markers arbitrary (a damaged header)
        g = smp.to_generalized()
        from smpl_extract.generalized.wav import WavSampleAdapter
        from smpl_extract.formats.wav import RiffStruct
        cont = WavSampleAdapter(RiffStruct)._encode(g, {}, "")
        for blk in cont["data"]["chunks"][-1]["data"]:
            total += len(blk)
            blocks += 1
            if total > nsec * c01.L_A or len(blk) == 0 or blocks > nsec * c01.L_A // 2 + 2:
                return 0                            # more than the chain holds: re-reading, would never end
    except Exception:
        return 1
    return 1


def h_drain_cdda(fa: int, fb: int, binlen: int, which: int) -> int:
    """
    pre: 0 <= fa <= 6 and 0 <= fb <= 6 and 0 <= binlen <= 4 * 2352 + 100 and 0 <= which <= 1
    post: _ == 1
    """
    CNT[0] += 1
    from vf.absfile import mkfile
    from smpl_extract.cuesheet import CueSheetFile, CueSheetTrack, CueSheetIndex
    from smpl_extract.cdda.image import CompactDiskAudioImageAdapter
    from smpl_extract.generalized.wav import WavSampleAdapter
    from smpl_extract.formats.wav import RiffStruct
    # two tracks whose index times are NOT assumed increasing or inside the bin (a damaged or hand-edited sheet)
    sheet = CueSheetFile("x.bin", [CueSheetTrack(1, "AUDIO", None, [CueSheetIndex(1, 0, 0, fa)]),
                                  CueSheetTrack(2, "AUDIO", "B", [CueSheetIndex(1, 0, 0, fb)])])
    total = blocks = 0
    try:
        f = mkfile(binlen)
        img = CompactDiskAudioImageAdapter.from_bin_cue(f, sheet)
        t = img.tracks[1] if which == 1 else img.tracks[0]
        g = t.to_generalized()
        cont = WavSampleAdapter(RiffStruct)._encode(g, {}, "")
        for blk in cont["data"]["chunks"][-1]["data"]:
            total += len(blk)
            blocks += 1
            if total > binlen or len(blk) == 0 or blocks > binlen // 4 + 2:
                return 0
    except Exception:
        return 1
    return 1


# ------------------------------------------------------------------ C13.regex: no live pattern has an exponentially ambiguous starred group
def _live_patterns():
    """every compiled pattern reachable as a module global or class attribute of the package (what the code under analysis really uses)"""
    import importlib
    import pkgutil
    import re
    import smpl_extract
    out = {}
    for mi in pkgutil.walk_packages(smpl_extract.__path__, "smpl_extract."):
        if mi.name.endswith(("__main__",)) or ".filters." in mi.name:
            continue
        try:
            mod = importlib.import_module(mi.name)
        except Exception:
            continue
        for k, v in vars(mod).items():
            if isinstance(v, re.Pattern):
                out[f"{mi.name}.{k}"] = v
            elif isinstance(v, type) and v.__module__ == mi.name:
                for kk, vv in vars(v).items():
                    if isinstance(vv, re.Pattern):
                        out[f"{mi.name}.{v.__name__}.{kk}"] = vv
    return out


def _stars(items, acc):
    from vf.symx import K
    for op, av in items:
        if op in (K.MAX_REPEAT, K.MIN_REPEAT):
            lo, hi, body = av
            body = list(body)
            if hi >= 2:
                acc.append(body)
            _stars(body, acc)
        elif op is K.SUBPATTERN:
            _stars(list(av[3]), acc)
        elif op is K.BRANCH:
            for alt in av[1]:
                _stars(list(alt), acc)
        elif op in (K.ASSERT, K.ASSERT_NOT):
            _stars(list(av[1]), acc)
    return acc


_REPLAY = r"""
import re, sys, json
pat, flags, w = json.loads(sys.argv[1])
p = re.compile(pat, flags)
for k in (24, 32):
    for pre in ("", "A"):
        for suf in ("\x00", "A", "!", "\n\n"):
            s = pre + w * k + suf
            p.match(s); p.search(s); p.fullmatch(s)
print("finished")
"""


def p_regex(twin=False, timeout=120, exclude=(), only=None, replay=None, cap=4):
    import itertools
    import json
    import subprocess
    import sys
    import time
    from vf import symx, sximg
    t0 = time.time()
    pats = _live_patterns()
    out = {"paths": 0, "queries": 0, "solver_s": 0.0, "messages": []}
    found = None
    nstars = 0
    for name, real in sorted(pats.items()):
        sp = symx.SymPattern(real.pattern, real.flags & ~32)
        for body in _stars(list(sp.tree), []):
            nstars += 1
            s, cons = sximg.sym_str("w", cap, minlen=1, maxcp=128)
            # all ways in which ONE iteration of the body consumes [0, n) and all ways in which TWO non-empty iterations do
            ways = []
            try:
                for (g, j, _c) in sp._seq(s, body, 0, 0, False):
                    if isinstance(j, int) and j > 0:
                        ways.append(z3.And(g, s.n == j))
                        for (g2, j2, _c2) in sp._seq(s, body, 0, j, False):
                            if isinstance(j2, int) and j2 > j:
                                ways.append(z3.And(g, g2, s.n == j2))
            except NotImplementedError as e:
                out["messages"].append({"state": "UNSUPPORTED", "message": f"{name}: {e!r}"})
                out.update(verdict="inconclusive")
                return out
            out["paths"] += len(ways)
            sol = z3.Solver()
            sol.set("timeout", int(timeout * 1000))
            sol.add(cons)
            sol.add(z3.Or([z3.And(a, b) for a, b in itertools.combinations(ways, 2)] or [z3.BoolVal(False)]))
            tq = time.time()
            r = sol.check()
            out["queries"] += 1
            out["solver_s"] += time.time() - tq
            if str(r) == "unknown":
                out.update(verdict="inconclusive")
                out["messages"].append({"state": "UNKNOWN", "message": name})
                return out
            if str(r) == "sat" and found is None:
                m = sol.model()
                n = m.eval(s.n, model_completion=True).as_long() if not isinstance(s.n, int) else s.n
                w = "".join(chr(m.eval(c, model_completion=True).as_long()) for c in s.c[:n])
                found = {"pattern": name, "regex": real.pattern, "flags": real.flags, "string_with_two_parses_of_the_repeated_group": w}
    out["solver_s"] = round(out["solver_s"], 3)
    out["wall_s"] = round(time.time() - t0, 2)
    if twin:
        out.update(verdict="refuted" if nstars else "discharged", reproduced=True, cex={"patterns": len(pats), "repeated_groups": nstars}, cex_message="witness")
        return out
    if found is None:
        out.update(verdict="discharged")
        return out
    # replay on the real engine: ~100 characters must not take seconds
    try:
        subprocess.run([sys.executable, "-c", _REPLAY, json.dumps([found["regex"], found["flags"], found["string_with_two_parses_of_the_repeated_group"]])],
                       timeout=20, capture_output=True)
        rep = False
    except subprocess.TimeoutExpired:
        rep = True
    found["replay"] = "real re engine did not finish 48 calls on inputs of <= 130 characters within 20 s" if rep else "real engine finished quickly"
    out.update(verdict="refuted", cex=found, cex_message=repr(found)[:600], reproduced=rep, replay={"reproduced": rep})
    return out


def obligations(tier, seed):
    q = tier == "quick"
    T = 170 if q else 900
    obs = []

    def ob(name, func, pre, sym, bound, **kw):
        return dict(name=name, module="vf.props.c13", func=func, extra_pre=pre, timeout=T, runs=RUNS, sym=sym, bound=bound,
                    stubs=kw.pop("stubs", []), **kw)
    for n in ((0, 1, 2, 3) if q else (0, 1, 2, 3, 4)):
        obs.append(ob(f"C13.cue/n={n}", "h_cue", [f"n == {n}"], "kind of every line", f"cue sheets of {n} lines over 8 line kinds; budget 3n+2 calls",
                      stubs=["counting wrapper around get_nonempty_entry"]))
    if q:
        obs.append(ob("C13.cue/n=4/FILE-first", "h_cue", ["n == 4", "k0 == 0"], "kind of lines 2..4", "4-line sheets starting with FILE",
                      stubs=["counting wrapper around get_nonempty_entry"]))
    else:
        for k0 in range(8):
            obs.append(ob(f"C13.cue/n=5/first={k0}", "h_cue", ["n == 5", f"k0 == {k0}"], "kind of lines 2..5", "5-line sheets",
                          stubs=["counting wrapper around get_nonempty_entry"]))
    obs.append(ob("C13.scan", "h_scan", [], "file size, size word and failure of each of up to 5 partition parses", "files <= 4 sectors + 100 bytes; size words 0..65535",
                  stubs=["AbsFile", "nondeterministic partition body"]))
    for kind in (0, 1):
        obs.append(ob(f"C13.read/kind={kind}", "h_readall", [f"kind == {kind}"], "view length, buffer_length, window offset / sectors", "length <= 3 buffers + 5",
                      stubs=["AbsFile/Spans"]))
    for nsec in (1, 2):
        obs.append(ob(f"C13.drain/akai/nsec={nsec}", "h_drain_akai", [f"nsec == {nsec}"], "chain, file size (24 bit), play start / end (32 bit, NOT assumed ordered or inside the file)",
                      f"{nsec}-sector chain; emitted bytes <= chain bytes as unwinding assertion", stubs=["AbsFile/Spans", "StubSat"]))
    for which in (0, 1):
        obs.append(ob(f"C13.drain/cdda/track={which + 1}", "h_drain_cdda", [f"which == {which}"], "both index times (frames 0..6, NOT assumed increasing or inside the bin), bin length",
                      "2 tracks, bin <= 4 sectors + 100 bytes; emitted bytes <= bin bytes as unwinding assertion", stubs=["AbsFile/Spans"]))
    obs.append(dict(name="C13.regex", engine="P", module="vf.props.c13", func="p_regex", params={"cap": 4 if q else 6}, timeout=120, runs=RUNS,
                    sym="a string of <= 4 (6) characters per repeated group of every live pattern", bound="two parses as one or two iterations of the group", stubs=["SymPattern"]))
    for mode in range(8):
        obs.append(ob(f"C13.drain/roland/mode={mode}", "h_drain_roland", [f"mode == {mode}"], "cluster pair, start point, sustain end, release end (each 0..2^24-1, NOT assumed ordered)",
                      "2-cluster chain; emitted bytes <= chain bytes as unwinding assertion", stubs=["AbsFile/Spans", "NpShim"]))
    # shared kernels: fuel assertions of the allocation-table decoders and the directory table loop
    for o in c07.obligations(tier, seed):
        if o["name"].startswith(("C07.akai/n=3", "C07.roland/m=3", "C07.path")) or (not q and o["name"].startswith("C07.akai/n=4")):
            o = dict(o, name=o["name"].replace("C07.", "C13.fuel/"))
            obs.append(o)
    for o in c14.obligations(tier, seed):
        if o["name"].startswith("C14.align"):
            obs.append(dict(o, name=o["name"].replace("C14.align", "C13.table")))
    return obs
