"""C06 — output paths are unique, file-system safe and confined to the destination.

Engine S (symx): the REAL Image.make_export_name / make_safe_name / _add_count_to_name / sanitize_names_general /
combine_stereo_routine are executed on bounded symbolic strings; the live regexes are compiled to position-indexed z3 formulas.
  C06.charset[n]    every path component is non-empty, matches \\w[\\w\\-.#() ]*, does not end in blank/dot, is not '.'/'..'
  C06.dedupe[N]     sibling de-duplication assigns pairwise distinct names in the guaranteed language (assume-guarantee link 2)
  C06.stereo[N]     stereo pairing keeps the names of one directory distinct (link 3)
  C06.confine       joining components of the guaranteed language cannot leave the destination
Engine X:
  C06.levels        every directory class applies the renaming routines to its children exactly once before handing them out
"""
import itertools
import os
import z3
from smpl_extract.structural import Image, Traversable, CouldNotDetermineName
from smpl_extract.generalized.sample import Sample
from smpl_extract.base import ElementTypes

CNT = [0]
CLASS_ALPHA = [ord(c) for c in "LRA1 -.()#/'"]          # one representative per character class the six patterns distinguish
OKPAT = r"\w[\w\-.#() ]*$"


def _real_image():
    return Image.__new__(Image)


# ------------------------------------------------------------------ C06.charset
def p_charset(n=8, is_file=True, maxcp=128, twin=False, timeout=600, exclude=(), only=None, replay=None):
    from vf import symx, sximg
    symx.reset()
    I = sximg.sym_image(summarize=())
    img = I()
    name, base = sximg.sym_str("c", n, maxcp=maxcp)
    okpat = symx.SymPattern(OKPAT)
    holder = {}

    def body():
        out = symx.SymStr.lift(img.make_export_name(name, is_file))
        comp = out + ".wav" if is_file else out
        holder["out"] = comp
        last = comp.at(comp.n - 1)
        return z3.Or(comp.n <= 0, z3.Not(okpat.match(comp).ok), symx.is_space(last), last == ord("."),
                     comp.eq("."), comp.eq(".."))

    def describe(m):
        return {"name": name.concrete(m), "is_file": is_file}

    def rep(cex):
        import re
        comp = _real_image().make_export_name(cex["name"], cex["is_file"]) + (".wav" if cex["is_file"] else "")
        bad = (len(comp) == 0 or not re.match(OKPAT, comp) or comp[-1] in " ." or comp in (".", "..") or comp[-1].isspace())
        cex["component"] = comp
        return bad
    if replay is not None:
        return {"verdict": "refuted", "reproduced": rep(replay), "cex": replay}
    return symx.run_obligation(body, base, describe, rep, twin=twin, timeout=timeout)


# ------------------------------------------------------------------ language guaranteed by charset, used as assumption downstream
def _in_G(s, with_parens):
    """membership of a symbolic name in the language charset guarantees (for a component without the .wav suffix):
    \\w[\\w\\-.# ]* (plus ( ) after de-duplication), no trailing blank"""
    from vf import symx
    pat = symx.SymPattern(r"\w[\w\-.#() ]*$" if with_parens else r"\w[\w\-.# ]*$")
    return z3.And(s.n >= 1, pat.match(s).ok, z3.Not(symx.is_space(s.at(s.n - 1))))


# ------------------------------------------------------------------ C06.dedupe
def p_dedupe(N=3, L=4, twin=False, timeout=600, exclude=(), only=None, replay=None):
    from vf import symx, sximg
    symx.reset()
    I = sximg.sym_image(summarize=("_add_count_to_name",))
    img = I()
    names, base = [], []
    for e in range(N):
        s, c = sximg.sym_str(f"n{e}", L, alphabet=CLASS_ALPHA, minlen=1)
        names.append(s)
        base += c + [_in_G(s, False)]
    holder = {}

    def body():
        elems = [Sample(name=names[e], _path=["d", "x"]) for e in range(N)]
        out = {}
        try:
            img.sanitize_names_general(elems, lambda nm, is_file: nm, lambda el, nm: out.__setitem__(id(el), nm))
        except CouldNotDetermineName:
            return z3.BoolVal(True)
        finals = [symx.SymStr.lift(out[id(e)]) for e in elems]
        holder["finals"] = finals
        viol = [a.eq(b) for a, b in itertools.combinations(finals, 2)]
        viol += [z3.Not(_in_G(f, True)) for f in finals]
        return z3.Or(viol)

    def describe(m):
        return {"candidates": [s.concrete(m) for s in names]}

    def rep(cex):
        real = _real_image()
        el = [Sample(name=r, _path=["d", "x"]) for r in cex["candidates"]]
        got = {}
        try:
            real.sanitize_names_general(el, lambda nm, f: nm, lambda e, nm: got.__setitem__(id(e), nm))
        except CouldNotDetermineName:
            cex["assigned"] = "CouldNotDetermineName"
            return True
        finals = [got[id(e)] for e in el]
        cex["assigned"] = finals
        import re
        return len(set(finals)) != len(finals) or any(not re.match(OKPAT, f) or f[-1].isspace() for f in finals)
    if replay is not None:
        return {"verdict": "refuted", "reproduced": rep(replay), "cex": replay}
    return symx.run_obligation(body, base, describe, rep, twin=twin, timeout=timeout)


# ------------------------------------------------------------------ C06.names: raw names -> REAL make_export_names_routine (both links together)
RAW_ALPHA = [ord(c) for c in "LA1 -.(/+'"]


def p_names(N=2, L=3, twin=False, timeout=900, exclude=(), only=None, replay=None):
    """raw sibling names straight through the real routine (the real make_export_name as sanitiser): every element GETS an export name, it is the
    sanitised form of its own raw name (possibly with a counter), names are pairwise distinct and inside the guaranteed language"""
    from vf import symx, sximg
    symx.reset()
    I = sximg.sym_image(summarize=("make_export_name", "make_safe_name", "_add_count_to_name"))
    img = I()
    raws, base = [], []
    for e in range(N):
        s, c = sximg.sym_str(f"r{e}", L, alphabet=RAW_ALPHA, minlen=1)
        raws.append(s)
        base += c

    def body():
        elems = [Sample(name=raws[e], _path=["d", "x"]) for e in range(N)]
        try:
            img.make_export_names_routine(elems)
        except CouldNotDetermineName:
            return z3.BoolVal(True)
        viol = []
        finals = []
        for e in range(N):
            if elems[e]._export_name is None:
                return z3.BoolVal(True)                          # an element left without an export name falls back to its raw name
            f = symx.SymStr.lift(elems[e]._export_name)
            finals.append(f)
            viol.append(z3.Not(_in_G(f, True)))
            own = symx.SymStr.lift(img.make_export_name(raws[e], True))
            # the assigned name starts with ... is the element's own sanitised name or that name with a counter inserted: at least as long, same first char
            viol.append(z3.And(z3.Not(f.eq(own)), f.n <= own.n))
        viol += [a.eq(b) for a, b in itertools.combinations(finals, 2)]
        return z3.Or(viol)

    def describe(m):
        return {"raw_names": [s.concrete(m) for s in raws]}

    def rep(cex):
        import re
        real = _real_image()
        el = [Sample(name=r, _path=["d", "x"]) for r in cex["raw_names"]]
        try:
            real.make_export_names_routine(el)
        except CouldNotDetermineName:
            return True
        finals = [e._export_name for e in el]
        cex["assigned"] = finals
        if any(f is None for f in finals):
            return True
        if len(set(finals)) != len(finals):
            return True
        for e, f in zip(el, finals):
            own = real.make_export_name(e.name, True)
            if not re.match(OKPAT, f) or f[-1].isspace() or (f != own and len(f) <= len(own)):
                return True
        return False
    if replay is not None:
        return {"verdict": "refuted", "reproduced": rep(replay), "cex": replay}
    return symx.run_obligation(body, base, describe, rep, twin=twin, timeout=timeout)


# ------------------------------------------------------------------ C06.stereo
def _stereo_parts(s):
    """(is stereo name, stem) of a symbolic name per the statement: stem + run of blanks/hyphens + L|R (+ trailing blanks)"""
    from vf import symx
    pat = symx.SymPattern(r"(.*?)([\s-]+)(L|R)\s*$")
    m = pat.match(s)
    return m.ok, m


def p_stereo(N=3, L=4, twin=False, timeout=900, exclude=(), only=None, replay=None):
    """N samples with pairwise distinct export names in G' go through the real combine_stereo_routine: output names pairwise distinct.
    Region 'stem_collision' (known finding F7b): the stem of a merged pair equals another output's name."""
    from vf import symx, sximg
    symx.reset()
    I = sximg.sym_image(summarize=())
    img = I()
    names, base = [], []
    for e in range(N):
        s, c = sximg.sym_str(f"n{e}", L, alphabet=CLASS_ALPHA, minlen=1)
        names.append(s)
        base += c + [_in_G(s, True)]
    base += [z3.Not(a.eq(b)) for a, b in itertools.combinations(names, 2)]
    holder = {}
    excl = set(exclude or ())

    def body():
        elems = [Sample(name="raw%d" % e, _export_name=names[e], _path=["d", "x"]) for e in range(N)]
        outs = img.combine_stereo_routine(elems)
        finals = [symx.SymStr.lift(o.export_name) for o in outs]
        merged = [all(o is not e for e in elems) for o in outs]          # combine_stereo returns a new object for a merged pair
        holder["finals"] = finals
        coll = []
        stem_coll = []
        for (i, a), (j, b) in itertools.combinations(list(enumerate(finals)), 2):
            eq = a.eq(b)
            coll.append(eq)
            if merged[i] or merged[j]:
                stem_coll.append(eq)
        viol = z3.Or(coll) if coll else z3.BoolVal(False)
        region = z3.Or(stem_coll) if stem_coll else z3.BoolVal(False)
        if twin:
            return viol                                  # the reachability witness must be an input on which NO two outputs collide
        if only == "stem_collision":
            return z3.And(viol, region)
        if "stem_collision" in excl:
            return z3.And(viol, z3.Not(region))
        return viol

    def describe(m):
        return {"export_names": [s.concrete(m) for s in names]}

    def rep(cex):
        real = _real_image()
        el = [Sample(name="raw%d" % i, _export_name=r, _path=["d", "x"]) for i, r in enumerate(cex["export_names"])]
        outs = [o.export_name for o in real.combine_stereo_routine(el)]
        cex["after_pairing"] = outs
        return len(set(outs)) != len(outs)
    if replay is not None:
        return {"verdict": "refuted", "reproduced": rep(replay), "cex": replay}
    return symx.run_obligation(body, base, describe, rep, twin=twin, timeout=timeout)


# ------------------------------------------------------------------ C06.confine
def p_confine(L=4, twin=False, timeout=300, exclude=(), only=None, replay=None):
    from vf import symx, sximg
    from smpl_extract.structural import ExportManager
    symx.reset()
    comps, base = [], []
    for e in range(3):
        s, c = sximg.sym_str(f"p{e}", L, minlen=1)
        comps.append(s)
        base += c + [_in_G(s, True), z3.Not(s.eq(".")), z3.Not(s.eq("..")), s.at(s.n - 1) != ord(".")]
    make_output_path = symx.instrument(ExportManager.make_output_path, {})

    class _Node:
        def __init__(self, name, parent, depth):
            self.export_name, self.parent, self.path = name, parent, ["x"] * depth
    from smpl_extract.base import Element
    export_path = symx.instrument(Element.export_path, {})
    sep = symx.SymPattern(r".*[/\\]")

    def body():
        root = _Node("IMAGE", None, 0)
        a = _Node(comps[0], root, 1)
        b = _Node(comps[1], a, 2)
        leaf = _Node(comps[2], b, 3)
        leaf.export_path = lambda: export_path(leaf)
        p = symx.SymStr.lift(make_output_path(ExportManager("dest"), leaf))
        want = comps[0] + "/" + comps[1] + "/" + comps[2]
        # exactly the three components joined by '/', none of which contains a separator: os.path.join(dest, p + '.wav') stays below dest
        viol = [z3.Not(p.eq(want))]
        for c in comps:
            viol.append(sep.match(c).ok)
        viol.append(p.at(0) == ord("/"))
        return z3.Or(viol)

    def describe(m):
        return {"components": [c.concrete(m) for c in comps]}

    def rep(cex):
        inner = "/".join(cex["components"])
        total = os.path.normpath(os.path.join("/dest", inner) + ".wav")
        return not total.startswith("/dest/") or total.count("/") != 4
    if replay is not None:
        return {"verdict": "refuted", "reproduced": rep(replay), "cex": replay}
    return symx.run_obligation(body, base, describe, rep, twin=twin, timeout=timeout)


# ------------------------------------------------------------------ C06.levels (engine X)
class _Kid:
    type_id = ElementTypes.SampleEntry

    def __init__(self, i):
        self.name = "k%d" % i
        self._safe_name = None
        self._export_name = None
        self.path = ["p", self.name]


def _recorders(log):
    def safe(children):
        log.append(("safe", [id(c) for c in children]))
        return children

    def export(children):
        log.append(("export", [id(c) for c in children]))
        return children
    return {"make_safe_names": safe, "make_export_names": export}


def h_levels(kind: int, n: int) -> int:
    """
    pre: 0 <= kind <= 5 and 0 <= n <= 3
    post: _ == 1
    """
    CNT[0] += 1
    from vf.util import conc
    kind, n = conc(kind, 0, 5), conc(n, 0, 3)
    kids = [_Kid(i) for i in range(n)]
    log = []
    routines = _recorders(log)
    if kind == 0:                                    # generic Traversable (partitions' volumes, Roland image/volumes)
        node = Traversable(lambda ctx: list(kids), routines=routines, path=["p"])
    elif kind == 1:                                  # AKAI image -> partitions
        import smpl_extract.akai.image as aimg
        from vf.absfile import AbsFile

        class _PP:
            def __init__(self):
                self.i = 0

            def parse_stream(self, f, **kw):
                from construct.core import ConstructError
                if self.i >= n:
                    raise ConstructError("no more partitions")
                f.seek(f.tell() + 8192, 0)
                self.i += 1
                return kids[self.i - 1]
        saved = aimg.PartitionParser
        aimg.PartitionParser = _PP()
        try:
            node = aimg.AkaiImageParser(AbsFile(8192 * 4))
            node.set_routines(routines)
            got1 = node.children
        finally:
            aimg.PartitionParser = saved
    elif kind == 2:                                  # AKAI volume -> files
        from smpl_extract.akai.volume import Volume
        from smpl_extract.akai.file_entry import FileEntry
        node = Volume(name="V", routines=routines, path=["p"], file_entries=[FileEntry("e%d" % i, 0x73, (lambda k: (lambda: k))(kids[i])) for i in range(n)])
    elif kind == 3:                                  # CDDA image -> tracks
        from smpl_extract.cdda.image import CompactDiskAudioImage
        node = CompactDiskAudioImage(tracks=list(kids))
        node.set_routines(routines)
    elif kind == 4:                                  # Roland performance -> files
        import smpl_extract.roland.s7xx.performance_entry as pem

        class _Prog:
            def __init__(self, sub):
                pass

            def _decode(self, patch, ctx, path):
                return patch["prog"]

        class _Smp:
            def __init__(self, sub):
                pass

            def _decode(self, patch, ctx, path):
                return patch["samples"]
        saved = (pem.ProgramFileAdapter, pem.SampleFileListAdapter)
        pem.ProgramFileAdapter, pem.SampleFileListAdapter = _Prog, _Smp
        progs = [_Kid(100 + i) for i in range(1 if n else 0)]
        patches = [{"prog": progs[0], "samples": list(kids)}] if n else []
        try:
            node = pem.PerformanceEntry(_f_patch_entries=lambda ctx: patches, _routines=routines, _path=["p"])
            got1 = node.children
        finally:
            pem.ProgramFileAdapter, pem.SampleFileListAdapter = saved
        kids = progs + kids
    else:                                            # Roland partial -> sample entries
        from smpl_extract.roland.s7xx.partial_entry import PartialEntry

        class _Ref:
            def __init__(self, k):
                self.sample_entry = k
        node = PartialEntry(sample_entry_references=[_Ref(k) for k in kids], _path=["p"], _routines=routines)
    got = node.children
    if [id(c) for c in got] != [id(c) for c in kids]:
        return 0
    # both routines were applied to exactly this list of children, once, before it was handed out
    want_ids = [id(c) for c in kids]
    if log != [("safe", want_ids), ("export", want_ids)]:
        # a level with no children may skip the routines (nothing to rename); an empty Roland partial re-realises (harmless)
        if len(kids) == 0 and all(ids == [] for (_n, ids) in log):
            pass
        else:
            return 0
    n_before = len(log)
    again = node.children
    if [id(c) for c in again] != want_ids:
        return 0
    if len(kids) > 0 and len(log) != n_before:
        return 0                                     # second access: memoised, not renamed again
    return 1


RUNS = ["smpl_extract.structural:Image.make_export_name", "smpl_extract.structural:Image.make_safe_name", "smpl_extract.structural:Image._add_count_to_name",
        "smpl_extract.structural:Image.sanitize_names_general", "smpl_extract.structural:Image.combine_stereo_routine",
        "smpl_extract.structural:ExportManager.make_output_path", "smpl_extract.base:Element.export_path",
        "smpl_extract.structural:Traversable.children", "smpl_extract.akai.image:AkaiImageParser._load_partitions", "smpl_extract.akai.volume:Volume.files",
        "smpl_extract.cdda.image:CompactDiskAudioImage.children", "smpl_extract.roland.s7xx.performance_entry:PerformanceEntry.files",
        "smpl_extract.roland.s7xx.partial_entry:PartialEntry.sample_entries"]

META = {
    "assumptions": [
        "strings are bounded character arrays (capacity stated per obligation) over code points < 128 (C06.charset) or over a 12-symbol alphabet with a "
        "representative of every character class the six patterns distinguish: L R A 1 blank - . ( ) # / ' (dedupe, stereo) - an alphabet bound, not an abstraction argument",
        "assume-guarantee chain: dedupe assumes candidates in the language charset guarantees (\\w[\\w\\-.# ]*, no trailing blank); stereo assumes pairwise "
        "distinct names in that language extended by ( )",
        "regex semantics: vf.symx compiles the live patterns from re._parser's tree; validated each run against CPython's re on all strings <= 2 over a class alphabet",
    ],
    "trusted": ["CPython 3.12", "z3 5.1", "vf.symx (SymStr, SymPattern, explorer)", "os.path.join / os.makedirs"],
    "out_of_claim": ["names longer than the stated capacity", "more siblings than stated", "non-ASCII code points >= 128 in C06.charset"],
}


# ------------------------------------------------------------------ C06.image: whole images with awkward sibling names through the real export
def h_image(fmt: int, n: int, i0: int, i1: int, i2: int, i3: int, sc: int, lvl: int = 0) -> int:
    """
    pre: 0 <= fmt <= 2 and 2 <= n <= 4 and 0 <= i0 <= 27 and 0 <= i1 <= 27 and 0 <= i2 <= 27 and 0 <= i3 <= 27 and 0 <= sc <= 1 and 0 <= lvl <= 4
    post: _ == 1
    """
    CNT[0] += 1
    from vf.util import conc, untraced
    fmt, n, sc, lvl = conc(fmt, 0, 2), conc(n, 2, 4), conc(sc, 0, 1), conc(lvl, 0, 4)
    idx = [conc(i, 0, 27) for i in (i0, i1, i2, i3)[:n]]
    with untraced():
        from vf import nameimg as N
        from vf.props import c16
        table = (N.AKAI_NAMES, N.ROLAND_NAMES, N.CDDA_TITLES)[fmt]
        if any(i >= len(table) for i in idx):
            return 1
        names = [table[i] for i in idx]
        # region first (from the names alone): does a merged pair's stem meet another output name of the directory?  Known finding F7b lives
        # there and only there; CDDA tracks are never merged, so the region is empty for fmt 2
        if (lvl > 0 and fmt == 2) or (lvl in (1, 2) and fmt == 0):
            return 1                                     # combinations that do not exist
        if (1 if (fmt != 2 and lvl == 0 and _stem_collision_possible(names)) else 0) != sc:
            return 1                                     # the other region's obligation owns this shape
        img, _d, prefix = N.build(fmt, names, level=lvl)
        if lvl == 2:
            names = names + ["SK"]                       # the orphan image also holds the sample of the performance that keeps the volume alive
            n = n + 1
            prefix = "out/"
        _k, files, log = c16._do(N.open_image(img), ("export", None))
        lines = [ln for ln in log.split("\n") if ln.startswith("Exported ")]
        if len(lines) != len(files) or len(set(lines)) != len(lines):
            return 0                                     # two samples written to one path
        channels = 0
        seen = []
        for path, wav in files:
            if not path.startswith(prefix):
                return 0                                 # outside the destination / directory
            comps = path.split("/")
            if any(not N.component_ok(c) for c in comps) or ".." in comps:
                return 0
            ch, data = N.pcm_of(wav)
            who = N.which_samples(fmt, names, ch, data)
            if any(w is None for w in who):
                return 0                                 # a channel that is nobody's audio
            channels += ch
            seen += who
        if fmt == 2:
            if sorted(seen) != sorted(list(range(n)) * 2):
                return 0                                 # every track is its own two-channel file
        elif channels != n or sorted(seen) != list(range(n)):
            return 0                                     # a sample lost or written twice
    return 1


def _stem_collision_possible(names):
    """True when the sanitised names may contain an L/R pair whose stem equals another sibling's sanitised name, or two L/R pairs with the same
    stem (both forms of the known finding) - decided on a deliberately coarse normal form (letters, digits, # and brackets only, case kept), so
    that the region is an over-approximation independent of the sanitiser"""
    import re as _re
    norm = lambda s: _re.sub(r"[^A-Za-z0-9#()]", "", s)
    ns = [norm(x) for x in names]
    stems = []
    for a in range(len(ns)):
        for b in range(len(ns)):
            if a != b and ns[a][-1:] == "L" and ns[b][-1:] == "R" and ns[a][:-1] == ns[b][:-1]:
                st = ns[a][:-1]
                if any(c not in (a, b) and (ns[c] == st or ns[c].startswith(st + "(")) for c in range(len(ns))):
                    return True
                stems.append((st, a, b))
    for i in range(len(stems)):
        for j in range(i + 1, len(stems)):
            if stems[i][0] == stems[j][0] and {stems[i][1], stems[i][2]} != {stems[j][1], stems[j][2]}:
                return True                          # two pairs named after the same stem
    return False


def image_obligations(prefix, module, tier, dup, extra=(), cdda=False, levels=False, same_inner=False):
    """name-image obligations shared by C05/C06/C10: 2 siblings: every pair of name classes; 3 siblings: split by the first sibling's class
    (quick: a few first classes; thorough: all); 4 siblings (thorough): first two pinned to an L/R pair"""
    from vf import nameimg as N
    q = tier == "quick"
    obs = []
    for fmt, fname, table in ((0, "akai", N.AKAI_NAMES), (1, "roland", N.ROLAND_NAMES)) + (((2, "cdda", N.CDDA_TITLES),) if cdda else ()):
        K = len(table)
        rng = f"i0 < {K} and i1 < {K} and i2 < {K} and i3 < {K}"
        mk = lambda nm, pre, bound: dict(name=f"{prefix}/{fname}/{nm}", module=module, func="h_image", extra_pre=[f"fmt == {fmt}", rng] + pre + list(extra), timeout=170 if q else 900,
                                         runs=RUNS, sym="name class of every sibling", bound=bound, stubs=["independent image writers", "export to a temporary directory, read back"])
        obs.append(mk("n=2", ["n == 2"], f"2 siblings over {K} name classes"))
        firsts = (1, 3, K - 1) if q else range(K)
        for f in firsts:
            obs.append(mk(f"n=3/first={f}", ["n == 3", f"i0 == {f}"], f"3 siblings over {K} name classes"))
        if not q:
            for f in range(K):
                obs.append(mk(f"n=4/L+R+{f}", ["n == 4", "i0 == 1", "i1 == 2", f"i2 == {f}"], f"4 siblings: an L/R pair + 2 over {K} name classes"))
        if levels and fmt != 2:
            # the same names one or two directory levels up: Roland performances (in a volume / orphans), AKAI and Roland volumes
            for lvl, lname in ((3, "volumes"),) if fmt == 0 else ((1, "performances"), (2, "orphan-performances"), (3, "volumes")):
                obs.append(mk(f"{lname}/n=2", ["n == 2", f"lvl == {lvl}"], f"2 sibling {lname} over {K} name classes"))
                for f in ((K - 1,) if q else range(K)):
                    obs.append(mk(f"{lname}/n=3/first={f}", ["n == 3", f"i0 == {f}", f"lvl == {lvl}"], f"3 sibling {lname} over {K} name classes"))
            if same_inner:
                obs.append(mk("volumes-same-inner-names/n=2", ["n == 2", "lvl == 4"], f"2 volumes over {K} name classes, identical performance / sample names inside"))
    for o in obs:
        if levels and "lvl ==" not in " ".join(o["extra_pre"]):
            o["extra_pre"] = o["extra_pre"] + ["lvl == 0"]
    return obs


def obligations(tier, seed):
    q = tier == "quick"
    obs = []

    def pob(name, func, params, sym, bound, timeout):
        return dict(name=name, engine="P", module="vf.props.c06", func=func, params=params, timeout=timeout, runs=RUNS, sym=sym, bound=bound,
                    stubs=["SymPattern for the live class-attribute patterns", "len()/join shims"])
    for is_file in (True, False):
        for n in ((4, 8) if q else (8, 12, 16)):
            obs.append(pob(f"C06.charset/{'file' if is_file else 'dir'}/n={n}", "p_charset", {"n": n, "is_file": is_file},
                           "every character of the stored name", f"all strings of <= {n} code points < 128", 400 if q else 1500))
    for N, L in (((2, 5), (3, 5), (4, 4)) if q else ((3, 6), (4, 5), (5, 4))):
        obs.append(pob(f"C06.dedupe/N={N}/len={L}", "p_dedupe", {"N": N, "L": L}, "candidate names of N siblings", f"{N} siblings, names <= {L} over the 12-class alphabet", 400 if q else 1500))
    for N, L in (((2, 5), (3, 5), (4, 4)) if q else ((3, 6), (4, 5), (5, 4))):
        obs.append(pob(f"C06.stereo/N={N}/len={L}", "p_stereo", {"N": N, "L": L}, "export names of N siblings", f"{N} siblings, names <= {L} over the 12-class alphabet", 400 if q else 1500))
    for N, L in (((2, 3),) if q else ((2, 4), (3, 3))):
        obs.append(pob(f"C06.names/N={N}/len={L}", "p_names", {"N": N, "L": L}, "raw names of N siblings", f"{N} siblings, raw names <= {L} over 10 character classes", 500 if q else 1800))
    obs.append(pob("C06.confine", "p_confine", {"L": 4 if q else 6}, "three path components", "components <= 4/6 chars in the guaranteed language", 300))
    for kind, nm in enumerate(["traversable", "akai-image", "akai-volume", "cdda-image", "roland-performance", "roland-partial"]):
        obs.append(dict(name=f"C06.levels/{nm}", module="vf.props.c06", func="h_levels", extra_pre=[f"kind == {kind}"], timeout=120, runs=RUNS,
                        sym="number of children", bound="0..3 children; recording routines", stubs=["recording routines", "stub child realisers"]))
    obs += image_obligations("C06.image", "vf.props.c06", tier, dup=True, cdda=True, levels=True, same_inner=True)
    return obs
