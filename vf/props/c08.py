"""C08 — byte-window views behave as read-only files under any seek/read history.

Every harness runs the REAL stream classes from /repo on the abstract backing file (vf.absfile) and compares
with the 10-line reference model in vf.hist.  Operation kinds: 0 seek(SET) 1 seek(CUR) 2 seek(END) 3 read 4 tell.
"""
from io import SEEK_SET
import smpl_extract.util.stream as S
from smpl_extract.util.stream import StreamOffset, StreamWrapper, StreamReversed, BadAlign, BadReadSize
from smpl_extract.util.fat import FileStream
from smpl_extract.alcohol.mdf import MdfStream, MDF_SECTOR_SIZE, MDF_SECTOR_BODY_SIZE, MDF_SECTOR_HEADER_SIZE
from vf.absfile import mkfile, byte_is, indices, REAL
from vf import hist

CNT = [0]


def use_npshim():
    if not REAL:
        from vf.npshim import NpShim
        S.np = NpShim


# ------------------------------------------------------------------ C08.offset
def h_offset(fsize: int, size: int, offset: int, k0: int, a0: int, k1: int, a1: int, k2: int, a2: int,
             k3: int, a3: int, nops: int, k: int) -> int:
    """
    pre: 0 < size and 0 <= offset and offset + size <= fsize <= 100000
    pre: 0 <= k0 <= 4 and 0 <= k1 <= 4 and 0 <= k2 <= 4 and 0 <= k3 <= 4
    pre: -100000 <= a0 <= 100000 and -100000 <= a1 <= 100000 and -100000 <= a2 <= 100000 and -100000 <= a3 <= 100000
    pre: (k0 != 3 or a0 >= 0) and (k1 != 3 or a1 >= 0) and (k2 != 3 or a2 >= 0) and (k3 != 3 or a3 >= 0)
    pre: 1 <= nops <= 4
    post: _ == 1
    """
    CNT[0] += 1
    f = mkfile(fsize)
    s = StreamOffset(f, size, offset)
    ops = [(k0, a0), (k1, a1), (k2, a2), (k3, a3)][:nops]
    return hist.run(s, size, lambda p: offset + p, ops, k)


# ------------------------------------------------------------------ C08.chain
def h_chain(L: int, s0: int, s1: int, s2: int, nsec: int, k0: int, a0: int, k1: int, a1: int, k2: int, a2: int,
            nops: int, k: int) -> int:
    """
    pre: L == 8192 or L == 9216
    pre: 0 <= s0 < 40 and 0 <= s1 < 40 and 0 <= s2 < 40 and s0 != s1 and s1 != s2 and s0 != s2
    pre: 1 <= nsec <= 3
    pre: 0 <= k0 <= 4 and 0 <= k1 <= 4 and 0 <= k2 <= 4
    pre: -30000 <= a0 <= 30000 and -30000 <= a1 <= 30000 and -30000 <= a2 <= 30000
    pre: (k0 != 3 or a0 >= 0) and (k1 != 3 or a1 >= 0) and (k2 != 3 or a2 >= 0)
    pre: 1 <= nops <= 3
    post: _ == 1
    """
    CNT[0] += 1
    L = 8192 if L == 8192 else 9216          # concrete per path (keeps the arithmetic linear)
    f = mkfile(40 * L)
    sl = [s0, s1, s2][:nsec]
    fs = FileStream(f, L, sl)
    ops = [(k0, a0), (k1, a1), (k2, a2)][:nops]
    return hist.run(fs, nsec * L, lambda p: sl[p // L] * L + p % L, ops, k)


def h_chain5(L: int, s0: int, s1: int, s2: int, s3: int, s4: int, a0: int, a1: int, k: int) -> int:
    """
    pre: L == 8192 or L == 9216
    pre: 0 <= s0 < 40 and 0 <= s1 < 40 and 0 <= s2 < 40 and 0 <= s3 < 40 and 0 <= s4 < 40
    pre: s0 != s1 and s0 != s2 and s0 != s3 and s0 != s4 and s1 != s2 and s1 != s3 and s1 != s4 and s2 != s3 and s2 != s4 and s3 != s4
    pre: 0 <= a0 <= 50000 and 0 <= a1 <= 50000
    post: _ == 1
    """
    CNT[0] += 1
    # one long read over a 5-sector chain in ANY order: reads that cover three or more whole sectors between their first and last one
    L = 8192 if L == 8192 else 9216
    f = mkfile(40 * L)
    sl = [s0, s1, s2, s3, s4]
    fs = FileStream(f, L, sl)
    return hist.run(fs, 5 * L, lambda p: sl[p // L] * L + p % L, [(0, a0), (3, a1)], k)


# ------------------------------------------------------------------ C08.mdf
def h_mdf(raw: int, k0: int, a0: int, k1: int, a1: int, k2: int, a2: int, nops: int, k: int) -> int:
    """
    pre: 2352 <= raw <= 4 * 2352 + 100
    pre: 0 <= k0 <= 4 and 0 <= k1 <= 4 and 0 <= k2 <= 4
    pre: -9000 <= a0 <= 9000 and -9000 <= a1 <= 9000 and -9000 <= a2 <= 9000
    pre: (k0 != 3 or a0 >= 0) and (k1 != 3 or a1 >= 0) and (k2 != 3 or a2 >= 0)
    pre: 1 <= nops <= 3
    post: _ == 1
    """
    CNT[0] += 1
    f = mkfile(raw)
    m = MdfStream(f)
    # reference from the format: sectors of 2352 bytes = 16 header + 2048 user data + 288 EDC/ECC
    length = (raw // 2352) * 2048
    ops = [(k0, a0), (k1, a1), (k2, a2)][:nops]
    return hist.run(m, length, lambda p: (p // 2048) * 2352 + 16 + p % 2048, ops, k)


# ------------------------------------------------------------------ C08.reversed
def h_reversed(size_s: int, w: int, off: int, k0: int, a0: int, k1: int, a1: int, nops: int, k: int) -> int:
    """
    pre: w == 1 or w == 2 or w == 4
    pre: 1 <= size_s <= 3000 and 0 <= off <= 100
    pre: 0 <= k0 <= 4 and 0 <= k1 <= 4
    pre: -13000 <= a0 <= 13000 and -13000 <= a1 <= 13000
    pre: (k0 != 3 or a0 >= 0) and (k1 != 3 or a1 >= 0)
    pre: 1 <= nops <= 2
    post: _ == 1
    """
    CNT[0] += 1
    use_npshim()
    w = 1 if w == 1 else (2 if w == 2 else 4)   # concrete per path
    size = size_s * w
    f = mkfile(off + size + 50)
    base = StreamOffset(f, size, off)
    r = StreamReversed(base, size, sample_width=w)
    ops = [(k0, a0), (k1, a1)][:nops]
    # logical content: samples in reverse order, bytes inside a sample in original order
    def addr_of(p):
        return off + (size_s - 1 - p // w) * w + p % w
    pos = 0
    for (kind, a) in ops:
        # model: what an aligned history must do; unaligned position/size must raise BadAlign/BadReadSize
        aligned = True
        if kind == 3:
            n = min(a, size - pos)
            if pos % w != 0 or n % w != 0:
                aligned = False
        try:
            newpos = hist.step(r, size, addr_of, pos, kind, a, k)
        except (BadAlign, BadReadSize):
            if r.tell() != pos:
                return 0          # a rejected operation must not have moved the cursor (a failed seek / read on a file is a no-op)
            if kind == 3 and not aligned:
                return 1          # rejected with the documented error; history ends
            if kind <= 2:
                # seek to an unaligned position may be rejected as well
                base_p = [0, pos, size][kind]
                tgt = min(max(base_p + a, 0), size)
                if tgt % w != 0:
                    return 1
            return 0
        if kind == 3 and not aligned:
            return 0              # an unaligned read was served instead of rejected
        if newpos < 0:
            return 0
        pos = newpos
    return 1


# ------------------------------------------------------------------ C08.nest
def h_nest_akai(P: int, s0: int, s1: int, fsize: int, woff: int, wsize: int, k0: int, a0: int, k1: int, a1: int,
                nops: int, k: int) -> int:
    """
    pre: 0 <= P <= 5 and 0 <= s0 < 20 and 0 <= s1 < 20 and s0 != s1
    pre: 0 < fsize <= 2 * 8192
    pre: 0 <= woff and 0 < wsize and woff + wsize <= fsize
    pre: 0 <= k0 <= 4 and 0 <= k1 <= 4
    pre: -20000 <= a0 <= 20000 and -20000 <= a1 <= 20000
    pre: (k0 != 3 or a0 >= 0) and (k1 != 3 or a1 >= 0)
    pre: 1 <= nops <= 2
    post: _ == 1
    """
    CNT[0] += 1
    L = 8192
    f = mkfile((P + 20) * L)
    part = StreamOffset(f, 20 * L, P * L)                # partition window
    sl = [s0, s1]
    seg = FileStream(part, L, sl)                        # sector chain inside the partition
    fstream = StreamWrapper(seg, fsize)                  # file length clip
    win = StreamOffset(fstream, wsize, woff)             # sample data window
    ops = [(k0, a0), (k1, a1)][:nops]

    def addr_of(p):
        i = woff + p
        return P * L + sl[i // L] * L + i % L
    return hist.run(win, wsize, addr_of, ops, k)


def h_nest_mdf(raw_sectors: int, tail: int, woff: int, wsize: int, s0: int, s1: int, k0: int, a0: int, k1: int,
               a1: int, nops: int, k: int) -> int:
    """
    pre: 9 <= raw_sectors <= 12 and 0 <= tail < 2352
    pre: 0 <= s0 < 2 and 0 <= s1 < 2 and s0 != s1
    pre: 0 <= woff and 0 < wsize and woff + wsize <= 2 * 8192
    pre: 0 <= k0 <= 4 and 0 <= k1 <= 4
    pre: -20000 <= a0 <= 20000 and -20000 <= a1 <= 20000
    pre: (k0 != 3 or a0 >= 0) and (k1 != 3 or a1 >= 0)
    pre: 1 <= nops <= 2
    post: _ == 1
    """
    CNT[0] += 1
    L = 8192
    raw = raw_sectors * 2352 + tail
    f = mkfile(raw)
    m = MdfStream(f)                                     # 2048-byte user data view
    mlen = raw_sectors * 2048
    part = StreamOffset(m, mlen - 2048, 2048)            # a partition starting one user sector in
    sl = [s0, s1]
    seg = FileStream(part, L, sl)
    win = StreamOffset(seg, wsize, woff)
    ops = [(k0, a0), (k1, a1)][:nops]

    def addr_of(p):
        i = woff + p
        u = 2048 + sl[i // L] * L + i % L                # address in the user-data view
        return (u // 2048) * 2352 + 16 + u % 2048
    return hist.run(win, wsize, addr_of, ops, k)


RUNS = ["smpl_extract.util.stream:StreamWrapper", "smpl_extract.util.stream:StreamOffset",
        "smpl_extract.util.stream:StreamReversed", "smpl_extract.util.sector:SectorStream",
        "smpl_extract.util.fat:FileStream", "smpl_extract.alcohol.mdf:MdfStream"]

META = {
    "assumptions": [
        "backing file obeys POSIX semantics (AbsFile stub): absolute/relative/end seeks, reads clipped at EOF",
        "views are non-empty (the statement's own pre-condition)",
        "read(n) is called with n >= 0 (read(None)/read(-1) -> readall is covered by C13.read)",
    ],
    "trusted": ["CPython 3.12", "z3 5.1", "CrossHair 0.0.110 int/list/tuple models", "vf.absfile stub", "vf.npshim (reversed view)"],
    "out_of_claim": ["histories longer than the stated number of operations", "chains longer than 3 sectors",
                     "windows/files larger than the stated sizes"],
}


def _ob(name, func, extra, timeout, sym, bound, stubs=("AbsFile/Spans",), **kw):
    return dict(name=name, module="vf.props.c08", func=func, extra_pre=list(extra), timeout=timeout, runs=RUNS,
                sym=sym, bound=bound, stubs=list(stubs), **kw)


def obligations(tier, seed):
    q = tier == "quick"
    T = 150 if q else 1200
    obs = []
    # skeletons: the kinds of the first one/two operations are enumerated into obligations, the rest is symbolic
    if q:
        for k0 in range(5):
            obs.append(_ob(f"C08.offset/h2/ops={k0}", "h_offset", ["nops == 2", f"k0 == {k0}"], T,
                           "window size/offset, file size, kind of op 2, all arguments, byte index",
                           "histories of 2 operations; |arg| <= 1e5; file <= 1e5 bytes"))
        obs.append(_ob("C08.offset/h3/ops=03", "h_offset", ["nops == 3", "k0 == 0", "k1 == 3"], T,
                       "window size/offset, file size, kind of op 3, all arguments, byte index",
                       "histories seek,read,<any>; |arg| <= 1e5; file <= 1e5 bytes"))
    else:
        for k0 in range(5):
            for k1 in range(5):
                obs.append(_ob(f"C08.offset/h3/ops={k0}{k1}", "h_offset", ["nops == 3", f"k0 == {k0}", f"k1 == {k1}"], T,
                               "window size/offset, file size, kind of op 3, all arguments, byte index",
                               "histories of 3 operations; |arg| <= 1e5; file <= 1e5 bytes"))
        for k2 in range(5):
            obs.append(_ob(f"C08.offset/h4/ops=03{k2}", "h_offset", ["nops == 4", "k0 == 0", "k1 == 3", f"k2 == {k2}"], T,
                           "window size/offset, file size, kind of op 4, all arguments, byte index",
                           "histories seek,read,<k2>,<any>; |arg| <= 1e5; file <= 1e5 bytes"))
    for L in ((8192,) if q else (8192, 9216)):
        obs.append(_ob(f"C08.chain5/L={L}", "h_chain5", [f"L == {L}"], T, "five sector numbers (distinct, any order), seek position, read size, byte index",
                       "5-sector chains; one seek + one read of up to 50000 bytes"))
    for L in (8192, 9216):
        for nsec in (1, 2, 3):
            if q and (nsec, L) not in ((3, 8192), (2, 9216)):
                continue
            nops = 2 if q else 3
            for k0 in range(5):
                for k1 in ((None,) if nops == 2 else range(5)):
                    pre = [f"L == {L}", f"nsec == {nsec}", f"nops == {nops}", f"k0 == {k0}"] + ([f"k1 == {k1}"] if k1 is not None else [])
                    obs.append(_ob(f"C08.chain/L={L}/nsec={nsec}/h{nops}/ops={k0}{'' if k1 is None else k1}", "h_chain", pre, T,
                                   "sector numbers (distinct, any order), kinds of later ops, arguments, byte index",
                                   f"{nsec} sectors of {L}; histories of {nops} ops; |arg| <= 30000"))
    nops = 2 if q else 3
    for k0 in range(5):
        for k1 in ((None,) if nops == 2 else range(5)):
            pre = [f"nops == {nops}", f"k0 == {k0}"] + ([f"k1 == {k1}"] if k1 is not None else [])
            obs.append(_ob(f"C08.mdf/h{nops}/ops={k0}{'' if k1 is None else k1}", "h_mdf", pre, T,
                           "raw file length (incl. partial trailing sector), op kinds, arguments, byte index",
                           f"1..4 raw sectors (+<=100 stray bytes); histories of {nops} ops"))
    for w in (1, 2, 4):
        for k0 in range(5):
            for k1 in range(5):
                if q and not ((k0, k1) in ((0, 3), (3, 3), (3, 0), (2, 3))):
                    continue
                obs.append(_ob(f"C08.reversed/w={w}/ops={k0}{k1}", "h_reversed", [f"w == {w}", "nops == 2", f"k0 == {k0}", f"k1 == {k1}"],
                               T, "length in samples, window offset, arguments, byte index",
                               "<= 3000 samples; histories of 2 ops", stubs=("AbsFile/Spans", "NpShim")))
    if q:
        for k0 in range(5):
            obs.append(_ob(f"C08.nest/akai4/ops={k0}", "h_nest_akai", ["nops == 1", f"k0 == {k0}"], T,
                           "partition start, 2 sectors (any order), file size, window, arguments", "depth 4: offset o wrapper o chain o offset; 1 op"))
            obs.append(_ob(f"C08.nest/mdf4/ops={k0}", "h_nest_mdf", ["nops == 1", f"k0 == {k0}"] + (["wsize <= 2500"] if k0 == 3 else []), T,
                           "raw length, 2 sectors, window, arguments", "depth 4: offset o chain o offset o mdf; 1 op" + ("; window <= 2500 bytes (anywhere in the 2 sectors)" if k0 == 3 else "")))
        obs.append(_ob("C08.nest/akai4/ops=32", "h_nest_akai", ["nops == 2", "k0 == 3", "k1 == 2"], T,
                       "partition start, 2 sectors (any order), file size, window, arguments", "depth 4; read then seek(END)"))
    else:
        for k0 in range(5):
            for k1 in range(5):
                obs.append(_ob(f"C08.nest/akai4/ops={k0}{k1}", "h_nest_akai", ["nops == 2", f"k0 == {k0}", f"k1 == {k1}"], T,
                               "partition start, 2 sectors (any order), file size, window, arguments", "depth 4: offset o wrapper o chain o offset; 2 ops"))
                obs.append(_ob(f"C08.nest/mdf4/ops={k0}{k1}", "h_nest_mdf", ["nops == 2", f"k0 == {k0}", f"k1 == {k1}"], T,
                               "raw length, 2 sectors, window, arguments", "depth 4: offset o chain o offset o mdf; 2 ops"))
    return obs
