"""C02 — Roland S-7xx export is byte-exact for every cluster chain and loop mode.

  C02.mode[m]  real SampleFile.to_generalized (mode -> window, reversal) over RolandFile(symbolic cluster list) over the data-area
               window over an abstract file, drained by the real WAV encoder / transcoder; reversal runs on NpShim.
  C02.fat      = C07.roland (FAT words -> chain, get_file minus leading clusters)   [shared obligations]
  C02.entry    real SampleEntryAdapter._decode_element: asks the FAT for (directory.fat_entry, cluster_top), carries the loop points.
  C02.addr     the Pointer offset lambdas and index validators of the five *EntryConstruct factories, evaluated on a symbolic index,
               against an independent table of the S-770 disk layout.
  C02.collect  real SampleFileListAdapter._decode: every referenced sample exactly once, first-seen order.
  C02.rate     the six sampling-frequency codes through the live MappingDefault.
"""
from construct import Container, Pointer, ExprValidator
from construct.core import Pass
import smpl_extract.util.stream as S
import smpl_extract.transcoder as T_
import smpl_extract.roland.s7xx.sample_file as sfmod
from smpl_extract.roland.s7xx.fat import RolandFile
from smpl_extract.roland.s7xx.sample_file import SampleFile, SampleFileListAdapter
from smpl_extract.roland.s7xx.sample_entry import (SampleParamLoopPoint, SampleEntryAdapter, SampleEntryConstruct,
                                                    SampleParamEntryStruct, SampleParamLoopPointStruct)
from smpl_extract.roland.s7xx.volume_entry import VolumeEntryConstruct
from smpl_extract.roland.s7xx.performance_entry import PerformanceEntryConstruct
from smpl_extract.roland.s7xx.patch_entry import PatchEntryConstruct
from smpl_extract.roland.s7xx.partial_entry import PartialEntryConstruct
from smpl_extract.roland.s7xx.data_types import RolandLoopMode
from smpl_extract.util.stream import StreamOffset
from smpl_extract.util.constructs import ChildInfo
from smpl_extract.generalized.wav import WavSampleAdapter
from smpl_extract.formats.wav import RiffStruct
from smpl_extract.midi import MidiNote
from vf.absfile import mkfile, byte_is, indices, REAL
from vf.util import conc
from vf.props import c07

CNT = [0]
LR = 9216                  # cluster = 18 blocks of 512 bytes (format constant)
DATA0 = 0x2b1000           # byte address of (virtual) cluster 0: cluster 2 is block 0x15AC  => 0x15AC*512 - 2*9216


def _shim():
    if not REAL:
        from vf.npshim import NpShim
        S.np = NpShim
        T_.np = NpShim


def h_mode(mode: int, c0: int, c1: int, start: int, s_start: int, s_end: int, r_start: int, r_end: int, k: int) -> int:
    """
    pre: 0 <= mode <= 7
    pre: 2 <= c0 <= 30 and 2 <= c1 <= 30 and c0 != c1
    pre: 0 <= start and 0 <= s_start and 0 <= s_end and 0 <= r_start and 0 <= r_end
    pre: start <= s_end < 9216 and start <= r_end < 9216 and s_start < 9216 and r_start < 9216
    post: _ == 1
    """
    CNT[0] += 1
    _shim()
    mode = conc(mode, 0, 7)
    f = mkfile(DATA0 + 32 * LR)
    data = StreamOffset(f, 32 * LR, DATA0)               # fat_data_stream: data area addressed from virtual cluster 0
    sl = [c0, c1]
    rf = RolandFile(data, sl)
    P = SampleParamLoopPoint
    lm = RolandLoopMode(mode) if mode <= 6 else 9        # 9: a mode byte outside the table -> documented default (forward, sustain end)
    sf = SampleFile(loop_mode=lm, start_sample=P(0, start), sustain_loop_start=P(0, s_start), sustain_loop_end=P(0, s_end),
                    release_loop_start=P(0, r_start), release_loop_end=P(0, r_end), name="x", _data_stream=rf, _path=["v", "p", "x"])
    g = sf.to_generalized()
    cont = WavSampleAdapter(RiffStruct)._encode(g, {}, "")
    gen = cont["data"]["chunks"][-1]["data"]
    out, total = [], 0
    for blk in gen:
        if len(blk) == 0 or len(blk) % 2 != 0:
            return 0
        out.append((total, blk))
        total += len(blk)
        if len(out) > 7:
            return 0
    # reference (S-770 loop modes): the sample runs from its start point to the release-loop end for the two modes that play the
    # release loop (1 forward+release, 3 forward one-shot with release), else to the sustain-loop end; 5 and 6 play it backwards
    endpoint = r_end if mode in (1, 3) else s_end
    n = endpoint - start + 1
    if total != 2 * n:
        return 0
    rev = mode in (5, 6)
    for kk in indices(k, total):
        w = start + (n - 1 - kk // 2) if rev else start + kk // 2
        i = 2 * w + kk % 2
        a = DATA0 + sl[i // LR] * LR + i % LR
        for (b0, blk) in out:
            if b0 <= kk < b0 + len(blk):
                if not byte_is(blk, kk - b0, a):
                    return 0
    if len(g.data_streams) != 1 or g.num_channels != 1:
        return 0
    return 1


class _RecFat:
    def __init__(self):
        self.calls = []

    def get_file(self, index, cluster_offset=0):
        self.calls.append((index, cluster_offset))
        return "STREAM"


def h_entry(fat_entry: int, cluster_top: int, a0: int, a1: int, a2: int, a3: int, a4: int, mode: int, freq: int) -> int:
    """
    pre: 0 <= fat_entry <= 65535 and 0 <= cluster_top <= 65535 and 0 <= mode <= 6 and 0 <= freq <= 100000
    pre: 0 <= a0 < 2**24 and 0 <= a1 < 2**24 and 0 <= a2 < 2**24 and 0 <= a3 < 2**24 and 0 <= a4 < 2**24
    post: _ == 1
    """
    CNT[0] += 1
    mode = conc(mode, 0, 6)
    P = SampleParamLoopPoint
    par = Container(name="pn", index=3, start_sample=P(1, a0), sustain_loop_start=P(2, a1), sustain_loop_end=P(3, a2),
                    release_loop_start=P(4, a3), release_loop_end=P(5, a4), loop_mode=RolandLoopMode(mode), sustain_loop_enable=1,
                    sustain_loop_tune=2, release_loop_tune=3, cluster_top=cluster_top, num_clusters=7,
                    sample_options=Container(sample_mode=0, sampling_frequency=freq), original_key=MidiNote.from_string("C4"))
    cont = Container(index=3, directory=Container(name="dn", fat_entry=fat_entry), parameter=par)
    fat = _RecFat()
    ci = ChildInfo(parent=None, parent_path=["v"], next_path=["v", "dn"], routines={}, name=None)
    e = SampleEntryAdapter(Pass)._decode_element(cont, ci, Container(_=Container(fat=fat)), "")
    if fat.calls != [(fat_entry, cluster_top)] or e._data_stream != "STREAM":
        return 0
    if (e.start_sample.address, e.sustain_loop_start.address, e.sustain_loop_end.address, e.release_loop_start.address,
            e.release_loop_end.address) != (a0, a1, a2, a3, a4):
        return 0
    if e.loop_mode != RolandLoopMode(mode) or e.sampling_frequency != freq or e.index != 3 or e.name != "dn":
        return 0
    return 1


# independent table of the S-770 disk layout: (directory area, entry size, parameter area, entry size, max entries)
LAYOUT = {
    "volume":      (0x0a0800, 0x20, 0x10d800, 0x100, 0x80),
    "performance": (0x0a1800, 0x20, 0x115800, 0x200, 0x200),
    "patch":       (0x0a5800, 0x20, 0x155800, 0x200, 0x400),
    "partial":     (0x0ad800, 0x20, 0x1d5800, 0x80, 0x1000),
    "sample":      (0x0cd800, 0x20, 0x255800, 0x30, 0x2000),
}
FACTORY = {"volume": VolumeEntryConstruct, "performance": PerformanceEntryConstruct, "patch": PatchEntryConstruct,
           "partial": PartialEntryConstruct, "sample": SampleEntryConstruct}
KINDS = ["volume", "performance", "patch", "partial", "sample"]


def _parts(kind):
    c = FACTORY[kind](lambda this: this.idx)
    st = c.subcon
    st = getattr(st, "defersubcon", st)
    ptr = {}
    val = None
    for sc in st.subcons:
        inner = getattr(sc, "subcon", None)
        if isinstance(inner, Pointer):
            ptr[sc.name] = inner
        if isinstance(sc, ExprValidator):
            val = sc
        elif isinstance(inner, ExprValidator):
            val = inner
    return ptr, val


def h_addr(kind: int, idx: int) -> int:
    """
    pre: 0 <= kind <= 4 and 0 <= idx <= 70000
    post: _ == 1
    """
    CNT[0] += 1
    kind = KINDS[conc(kind, 0, 4)]
    d0, dsz, p0, psz, mx = LAYOUT[kind]
    ptr, val = _parts(kind)
    ctx = Container(_=Container(idx=idx))
    admitted = bool(val._validate(idx, ctx, ""))
    if admitted != (idx < mx):
        return 0                                    # index validator admits exactly the entries the area has room for
    if not admitted:
        return 1
    da = ptr["directory"].offset(ctx)
    pa = ptr["parameter"].offset(ctx)
    if da != d0 + dsz * idx or pa != p0 + psz * idx:
        return 0
    # the record lies inside its own area (areas are adjacent in the table above)
    if not (d0 <= da and da + dsz <= d0 + dsz * mx and p0 <= pa and pa + psz <= p0 + psz * mx):
        return 0
    return 1


class _SE:
    def __init__(self, index):
        self.index = index
        self.name = "S%d" % index
        self._data_stream = None


class _PE:
    def __init__(self, idxs):
        self.sample_entries = [_SE(i) for i in idxs]


def h_collect(n0: int, n1: int, i0: int, i1: int, i2: int, i3: int, i4: int, i5: int) -> int:
    """
    pre: 0 <= n0 <= 4 and 0 <= n1 <= 2
    pre: 0 <= i0 <= 2 and 0 <= i1 <= 2 and 0 <= i2 <= 2 and 0 <= i3 <= 2 and 0 <= i4 <= 2 and 0 <= i5 <= 2
    post: _ == 1
    """
    CNT[0] += 1
    n0, n1 = conc(n0, 0, 4), conc(n1, 0, 2)
    idx = [conc(x, 0, 2) for x in (i0, i1, i2, i3, i4, i5)[:n0 + n1]]
    patch = Container(partial_entries=[_PE(idx[:n0]), _PE(idx[n0:n0 + n1])])
    saved = sfmod.SampleFileAdapter

    class _SFA:
        def __init__(self, sub):
            pass

        def _decode(self, entry, context, path):
            return "F%d" % entry.index
    sfmod.SampleFileAdapter = _SFA
    try:
        got = SampleFileListAdapter(Pass)._decode(patch, {}, "")
    finally:
        sfmod.SampleFileAdapter = saved
    want = []
    for i in idx:
        if ("F%d" % i) not in want:
            want.append("F%d" % i)
    return 1 if got == want else 0


# ------------------------------------------------------------------ orphan performances (decision tree, concrete per path)
class _StubVolumes:
    """stands for SafeListConstruct(num_volumes, VolumeEntryAdapter(...)): returns the volume entries of the model"""

    def __init__(self, vols):
        self.vols = vols

    def _parsereport(self, stream, context, path):
        return list(self.vols)


def h_orphans(nperf: int, present: int, a0: int, a1: int, b0: int, b1: int, nvol: int) -> int:
    """
    pre: 0 <= nperf <= 3 and 0 <= present <= 7 and 0 <= nvol <= 2
    pre: -1 <= a0 <= 2 and -1 <= a1 <= 2 and -1 <= b0 <= 2 and -1 <= b1 <= 2
    post: _ == 1
    """
    CNT[0] += 1
    import io
    import struct
    from vf.util import untraced
    present, nvol = conc(present, 0, 7), conc(nvol, 0, 2)
    nperf = bin(present).count("1")                                       # the id area's count = number of performances on the disk
    refs = []
    if nvol >= 1:
        refs.append([conc(x, -1, 2) for x in (a0, a1)])
    if nvol >= 2:
        refs.append([conc(x, -1, 2) for x in (b0, b1)])
    with untraced():
        import numpy as np
        from smpl_extract.roland.s7xx.volume_entry import VolumeEntriesList, VolumeEntry
        from smpl_extract.roland.s7xx.data_types import PERFORMANCE_DIRECTORY_AREA_OFFSET
        perf_idx = [i for i in range(3) if (present >> i) & 1]            # performance directory slots that hold a performance
        vol_ptrs = [sorted({x for x in r if x >= 0}) for r in refs]
        if any(x not in perf_idx for r in vol_ptrs for x in r):
            return 1                                                       # volumes reference existing performances only
        # performance directory area: 32-byte entries, type byte 0x41 for a performance
        area = bytearray(PERFORMANCE_DIRECTORY_AREA_OFFSET + 0x200 * 0x20)
        for i in perf_idx:
            off = PERFORMANCE_DIRECTORY_AREA_OFFSET + 0x20 * i
            area[off:off + 16] = ("PERF %d" % i).ljust(16).encode("ascii")
            area[off + 16] = 0x41
        vols = [VolumeEntry(v, "VOL%d" % v, "VOL%d" % v, vol_ptrs[v], _f_realize_children=lambda ctx: []) for v in range(nvol)]
        lst = VolumeEntriesList(nvol, nperf)
        lst.subcon = _StubVolumes(vols)
        ctx = Container(_parsing=True, _building=False, _sizing=False, _params=Container(), _dir_version=1)
        out = lst._parse(io.BytesIO(bytes(area)), ctx, "")
        referenced = {x for r in vol_ptrs for x in r}
        orphans = [i for i in perf_idx if i not in referenced]
        # every performance no volume references is exported under a pseudo-volume; volumes are kept as they are
        if [v.directory_name for v in out[:nvol]] != ["VOL%d" % v for v in range(nvol)]:
            return 0
        if orphans:
            if len(out) != nvol + 1:
                return 0
            if sorted(int(x) for x in out[-1].performance_ptrs) != orphans:
                return 0
        elif len(out) != nvol:
            if not (len(out) == nvol + 1 and list(out[-1].performance_ptrs) == []):
                return 0
    return 1


# ------------------------------------------------------------------ C02.image: whole S-770 images from the independent writer through the real export
def _words(n, seed):
    import struct
    return b"".join(struct.pack("<h", ((i * 7 + seed * 1000) % 60000) - 30000) for i in range(n))


FREQ = {0: 48000, 1: 44100, 2: 24000, 3: 22050, 4: 30000, 5: 15000}


def expected_pcm(smp):
    """words start..endpoint(mode) of the sample, time-reversed for the two reverse modes (reference, from the statement)"""
    w = smp["words"]
    n_all = len(w) // 2
    mode = smp.get("mode", 0)
    start = smp.get("start", 0)
    endp = smp.get("release_end", n_all - 1) if mode in (1, 3) else smp.get("sustain_end", n_all - 1)
    pcm = w[2 * start:2 * (endp + 1)]
    if mode in (5, 6):
        pcm = b"".join(pcm[i:i + 2] for i in range(len(pcm) - 2, -2, -2))
    return pcm


def h_image(shape: int, mode: int, freq: int, top: int, perm: int, fill: int, ver: int) -> int:
    """
    pre: 0 <= shape <= 3 and 0 <= mode <= 6 and 0 <= freq <= 5 and 0 <= top <= 2 and 0 <= perm <= 2 and 0 <= fill <= 1 and 1 <= ver <= 2
    post: _ == 1
    """
    CNT[0] += 1
    import io
    import struct
    from vf.util import untraced
    shape, mode, freq, top, perm, fill, ver = conc(shape, 0, 3), conc(mode, 0, 6), conc(freq, 0, 5), conc(top, 0, 2), conc(perm, 0, 2), conc(fill, 0, 1), conc(ver, 1, 2)
    with untraced():
        from vf import rolandw
        from vf.props import c16, c01
        import smpl_extract.actions as actions
        nw = 2 * 4608 if fill else 6000                      # exactly two clusters, or ending inside the second one
        s1 = dict(name="Smp1", words=_words(nw, 2), chain=[[0, 1], [1, 0], [0, 1]][perm][:2] + ([2] if top else []) if False else None,
                  cluster_top=top, mode=mode, freq_code=freq, start=3, sustain_start=5, sustain_end=nw - 7, release_start=9, release_end=nw - 2)
        nclus = 2 + top
        s1["chain"] = {0: list(range(nclus)), 1: list(reversed(range(nclus))), 2: [nclus - 1] + list(range(nclus - 1))}[perm]
        s0 = dict(name="Smp0", words=_words(500, 1), freq_code=1)
        s2 = dict(name="Smp2", words=_words(300, 3), mode=2, freq_code=3)
        s3 = dict(name="Unused", words=_words(40, 4))        # referenced by nobody: must not be exported
        # a second sample stored inside Smp1's chain (same FAT head), one cluster further in: its audio is the rest of Smp1's
        s4 = dict(name="Smp4", words=s1["words"][9216:], share_with=1, cluster_top=top + 1, mode=2, freq_code=4)
        if shape == 0:      # one volume, one performance
            vols, perfs = [("VolA", [0])], [("Perf0", [0])]
        elif shape == 1:    # shared performance + orphan performance
            vols, perfs = [("VolA", [0, 1]), ("VolB", [0])], [("Perf0", [0]), ("Perf1", [1]), ("Perf2", [1])]
        elif shape == 2:    # no volumes at all: every performance is listed under the pseudo-volume
            vols, perfs = [], [("Perf0", [0]), ("Perf1", [1])]
        else:               # orphan only through sharing (the C02b situation)
            vols, perfs = [("VolA", [0, 1]), ("VolB", [0])], [("Perf0", [0, 1]), ("Perf1", [0]), ("Perf2", [1])]
        model = {"volumes": vols, "performances": perfs, "patches": [("Patch0", [0]), ("Patch1", [1])],
                 "partials": [("Part0", [0, 1, 0]), ("Part1", [-1, 2, -1, 4])],      # Part1: used slots behind unused ones
                 "samples": [s0, s1, s2, s3, s4], "fat_version": ver}
        img = rolandw.build(model)
        try:
            image = actions.determine_image_type(io.BufferedReader(io.BytesIO(img)))
            res = c16._do(image, ("export", None))
        except Exception:
            return 0
        if type(image).__name__ != "RolandS7xxImage":
            return 0
        got = dict(res[1])
        smp = model["samples"]
        patch_samples = {0: [0, 1], 1: [2, 4]}              # patch -> partial -> samples, each distinct sample once (no sample shared by two
        #                                                     patches of one performance: whether that is one file or two is not claimed)
        exp = {}
        referenced = set()
        for vname, plist in vols:
            for pi in plist:
                referenced.add(pi)
                for pa in perfs[pi][1]:
                    for si in patch_samples[pa]:
                        exp["%s/%s/%s.wav" % (vname, perfs[pi][0], smp[si]["name"])] = si
        orphans = [i for i in range(len(perfs)) if i not in referenced]
        pseudo = "All Performances" if not vols else "_Orphan_perf"
        for pi in orphans:
            for pa in perfs[pi][1]:
                for si in patch_samples[pa]:
                    exp["%s/%s/%s.wav" % (pseudo, perfs[pi][0], smp[si]["name"])] = si
        if sorted(got) != sorted("out/" + k for k in exp):
            return 0
        for k, si in exp.items():
            try:
                c = c01._riff_chunks(got["out/" + k])
            except ValueError:
                return 0
            af, nch, sr, br, ba, bits = struct.unpack("<HHIIHH", c[b"fmt "])
            if (af, nch, bits, sr) != (1, 1, 16, FREQ[smp[si].get("freq_code", 0)]):
                return 0
            if c[b"data"] != expected_pcm(smp[si]):
                return 0
    return 1


def h_rate(code: int) -> int:
    """
    pre: 0 <= code <= 15
    post: _ == 1
    """
    CNT[0] += 1
    code = conc(code, 0, 15)
    table = {0: 48000, 1: 44100, 2: 24000, 3: 22050, 4: 30000, 5: 15000}        # S-770 sampling-frequency codes
    st = getattr(SampleParamEntryStruct, "defersubcon", SampleParamEntryStruct)
    opts = [sc for sc in st.subcons if sc.name == "sample_options"][0].subcon.subcon
    fq = [sc for sc in opts.subcons if sc.name == "sampling_frequency"][0].subcon
    try:
        got = fq._decode(code, {}, "")
    except Exception:
        return 1 if code not in table else 0
    if code in table:
        return 1 if got == table[code] else 0
    return 1                                          # codes outside the table: any default, no claim


def h_looppoint(raw: int) -> int:
    """
    pre: 0 <= raw <= 0xFFFFFFFF
    post: _ == 1
    """
    CNT[0] += 1
    st = getattr(SampleParamLoopPointStruct, "defersubcon", SampleParamLoopPointStruct)
    ctx = Container(raw_value=raw)
    fine = [sc for sc in st.subcons if sc.name == "fine"][0].subcon.func(ctx)
    addr = [sc for sc in st.subcons if sc.name == "address"][0].subcon.func(ctx)
    return 1 if (fine == raw % 256 and addr == raw // 256) else 0


RUNS = ["smpl_extract.roland.s7xx.volume_entry:VolumeEntriesList._parse", "smpl_extract.roland.s7xx.volume_entry:VolumeEntriesList._parse_orphan_performances",
        "smpl_extract.roland.s7xx.sample_file:SampleFile.to_generalized", "smpl_extract.roland.s7xx.sample_file:_get_forward_end_params",
        "smpl_extract.roland.s7xx.sample_file:_get_forward_release_params", "smpl_extract.roland.s7xx.sample_file:_get_oneshot_params",
        "smpl_extract.roland.s7xx.sample_file:_get_forward_oneshot_params", "smpl_extract.roland.s7xx.sample_file:_get_alternate_params",
        "smpl_extract.roland.s7xx.sample_file:_get_reverse_oneshot_params", "smpl_extract.roland.s7xx.sample_file:_get_reverse_loop_params",
        "smpl_extract.roland.s7xx.sample_file:SampleFileListAdapter._decode", "smpl_extract.roland.s7xx.sample_entry:SampleEntryAdapter._decode_element",
        "smpl_extract.roland.s7xx.sample_entry:SampleEntryConstruct", "smpl_extract.roland.s7xx.fat:RolandFile",
        "smpl_extract.util.stream:StreamReversed", "smpl_extract.util.stream:StreamOffset", "smpl_extract.generalized.wav:WavSampleAdapter._encode",
        "smpl_extract.transcoder:make_transcoder"] + [r for r in c07.RUNS if "roland" in r]

META = {
    "assumptions": ["end point per loop mode (reference): release-loop end for modes 1 and 3, sustain-loop end otherwise; modes 5, 6 reversed",
                    "the data-area window starts at 0x2b1000 (virtual cluster 0) as in the format notes; cluster = 9216 bytes",
                    "S-770 area layout table transcribed independently in the harness",
                    "patch->partial->sample pointer chasing, orphan-performance discovery and FAT version-2 link adjustment run inside construct "
                    "Lazy/Pointer: not reachable symbolically; exercised end to end by C02.image on solver-chosen concrete S-770 images"],
    "trusted": ["CPython 3.12", "z3 5.1", "CrossHair 0.0.110", "construct 2.10", "AbsFile/Spans", "NpShim"],
    "out_of_claim": ["chains longer than 2 clusters in C02.mode (3..4-entry tables in C02.fat)", "which performances reference which samples (directory glue)",
                     "stereo Roland samples (sample_mode 1)"],
}


def obligations(tier, seed):
    q = tier == "quick"
    T = 170 if q else 1200
    obs = []

    def ob(name, func, pre, sym, bound, stubs):
        return dict(name=name, module="vf.props.c02", func=func, extra_pre=pre, timeout=T, runs=RUNS, sym=sym, bound=bound, stubs=stubs)
    for mode in range(8):
        regions = [("interior", "(2 * ({e} + 1)) % 9216 != 0"), ("cluster_exact", "(2 * ({e} + 1)) % 9216 == 0")]
        e = "r_end" if mode in (1, 3) else "s_end"
        for rname, rpre in regions:
            halves = [("", [])] if (q and mode not in (0, 1, 5)) or rname == "cluster_exact" else [("/lo", ["start < 4608"]), ("/hi", ["start >= 4608"])]
            if q and mode in (2, 4, 7) and rname == "interior":
                halves = [("", ["start >= 3000"])]
            if mode in (1, 3) and rname == "interior":
                halves = [(f"/q{i}", [f"{2304 * i} <= start < {2304 * (i + 1)}"]) for i in range(4)]
                if mode == 1:
                    halves = [(h + x, hp + xp) for (h, hp) in halves for (x, xp) in (("a", ["r_end < 4608"]), ("b", ["r_end >= 4608"]))]
                    halves = [(h, hp) for (h, hp) in halves if not (h in ("/q2a", "/q3a"))]       # start > r_end: empty
            for hname, hpre in halves:
                obs.append(ob(f"C02.mode/{mode}/{rname}{hname}", "h_mode", [f"mode == {mode}", rpre.format(e=e)] + hpre,
                              "both cluster numbers (any order), the five loop-point addresses, byte index",
                              "2 clusters, addresses < 9216 words" + ("; start >= 3000" if hpre == ["start >= 3000"] else ""), ["AbsFile/Spans", "NpShim"]))
    obs.append(ob("C02.entry", "h_entry", [], "fat entry, cluster_top, 5 loop-point addresses, mode, frequency", "full field ranges", ["recording FAT"]))
    for kind in range(5):
        obs.append(ob(f"C02.addr/{KINDS[kind]}", "h_addr", [f"kind == {kind}"], "record index", "0..70000", []))
    for n0 in range(5):
        obs.append(ob(f"C02.collect/n0={n0}", "h_collect", [f"n0 == {n0}"], "sample indices referenced by two partials", f"{n0} + <=2 references over 3 indices", ["SampleFileAdapter recorder"]))
    for shape in range(4):
        for mode in range(7):
            if q and (shape, mode) not in ((0, 0), (1, 5), (2, 1), (3, 6), (1, 3), (0, 2), (0, 4)):
                continue
            obs.append(ob(f"C02.image/shape={('single', 'shared+orphan', 'no-volumes', 'orphan-by-sharing')[shape]}/mode={mode}", "h_image",
                          [f"shape == {shape}", f"mode == {mode}"] + (["freq <= 1 and ver == 1 + (perm % 2)"] if q else []),
                          "sampling-frequency code, cluster_top, chain permutation, exact cluster fill, FAT version",
                          "whole S-770 images (2.9 MB) from the independent writer through determine_image_type + export; concrete per path",
                          ["independent S-770 writer", "export to a temporary directory, read back"]))
    for nvol in (0, 1, 2):
        obs.append(ob(f"C02.orphans/volumes={nvol}", "h_orphans", [f"nvol == {nvol}"], "which directory slots hold performances, which performances each volume references",
                      "<= 3 performances, <= 2 volumes x <= 2 references (shared and orphaned)", ["stub volume list", "synthetic performance directory area"]))
    obs.append(ob("C02.rate", "h_rate", [], "4-bit frequency code", "0..15", []))
    obs.append(ob("C02.looppoint", "h_looppoint", [], "raw 32-bit loop point", "0..2^32-1", []))
    for o in c07.obligations(tier, seed):
        if o["name"].startswith("C07.roland"):
            obs.append(dict(o, name=o["name"].replace("C07.roland", "C02.fat")))
    return obs
