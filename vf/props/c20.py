"""C20 — `ls` reports the header values stored in the image for samples and programs.

  C20.layout/*  (engine L + z3) the LIVE construct structs are walked into a bit-vector model  record bytes -> raw field values ; an independent
                field table (offset, width, signedness, byte order; transcribed from the published AKAI S1000/S3000 notes and the S-770 layout) is
                modelled the same way; z3 must find NO record on which a field's two readings differ.  The walker is validated each run by parsing
                solver-chosen records with the real structs.
  C20.adapt/*   (CrossHair) value adapters on symbolic raw values: loop entry arithmetic, active-loop filtering and rate default of the sample adapter,
                BoolConstruct, zone loop-type mapping, enum/mapping defaults, Roland loop-point split, keygroup chain predicate.
  C20.ls/*      (CrossHair decision tree, concrete per path) header values chosen by the solver -> bytes by an independent writer -> REAL parser ->
                REAL get_info().to_string() -> parsed back: the printed values are the stored ones (AKAI sample, AKAI program + keygroups with 0..4
                active zones and arbitrary next-keygroup addresses, CDDA track).
  C20.print     (CrossHair) LeafElement.itemize -> InfoTree: one `name: value` line per public field, in declaration order.
"""
import io
import struct
import z3
from construct import Container
from smpl_extract.akai.sample import (SampleHeaderConstruct, LoopDataConstruct, LoopEntryAdapter, SampleAdapter, LoopEntry)
from smpl_extract.akai.program import ProgramHeaderConstruct, ProgramParser, _has_next_keygroup
from smpl_extract.akai.keygroup import VelocityZoneConstruct, KeygroupConstruct, ZoneLoopTypeAdapter
from smpl_extract.akai.data_types import AkaiLoopType, SampleType
from smpl_extract.roland.s7xx.sample_entry import SampleParamEntryStruct
from smpl_extract.roland.s7xx.directory_area import DirectoryEntryStruct
from smpl_extract.util.constructs import BoolConstruct, ChildInfo
from smpl_extract.midi import MidiNote
from vf.util import conc, untraced

CNT = [0]

# ------------------------------------------------------------------ independent field tables: (name, offset, width, signed)  - little endian
T_LOOP = [("loop_start", 0, 4, False), ("loop_length_fine", 4, 2, False), ("loop_length_coarse", 6, 4, False), ("loop_duration", 10, 2, False)]
T_SAMPLE = [("id", 0, 1, False), ("note_pitch", 2, 1, False), ("loop_type", 19, 1, False), ("pitch_offset_cents", 20, 1, True),
            ("pitch_offset_semi", 21, 1, True), ("samples_cnt", 26, 4, False), ("play_start", 30, 4, False), ("play_end", 34, 4, False),
            ("sampling_rate", 138, 2, False)] + \
           [("loop_data_table[%d].%s" % (i, n), 38 + 12 * i + o, w, s) for i in range(8) for (n, o, w, s) in T_LOOP]
_PROG_NAMES = [
    ("program_id", 1, False), ("first_keygroup_address", 2, False), ("program_name", 12, None), ("midi_program_number", 1, False), ("midi_channel", 1, False),
    ("polyphony", 1, False), ("priority", 1, False), ("low_key", 1, False), ("high_key", 1, False), ("octave_shift", 1, True), ("aux_output_select", 1, False),
    ("mix_output_level", 1, False), ("mix_output_pan", 1, True), ("volume", 1, False), ("vel_to_volume", 1, True), ("key_to_volume", 1, True),
    ("pres_to_volume", 1, True), ("pan_lfo_rate", 1, False), ("pan_lfo_depth", 1, False), ("pan_lfo_delay", 1, False), ("key_to_pan", 1, True),
    ("lfo_rate", 1, False), ("lfo_depth", 1, False), ("lfo_delay", 1, False), ("mod_to_lfo_depth", 1, False), ("pres_to_lfo_depth", 1, False),
    ("vel_to_lfo_depth", 1, False), ("bend_to_pitch", 1, False), ("pres_to_pitch", 1, True), ("keygroup_crossfade", 1, False), ("number_of_keygroups", 1, False),
    (None, 1, None)] + [("key_temperaments[%d]" % i, 1, False) for i in range(12)] + [
    ("fx_output", 1, False), ("mod_to_pan", 1, True), ("stereo_coherence", 1, False), ("lfo_desync", 1, False), ("pitch_law", 1, False), ("voice_reassign", 1, False),
    ("softped_to_volume", 1, False), ("softped_to_attack", 1, False), ("softped_to_filter", 1, False), ("tune_cents", 1, True), ("tune_semitones", 1, True),
    ("key_to_lfo_rate", 1, True), ("key_to_lfo_depth", 1, True), ("key_to_lfo_delay", 1, True), ("voice_output_scale_db", 1, False), ("stereo_output_scale_db", 1, False)]


def _seq_table(items):
    out, off = [], 0
    for (n, w, s) in items:
        if n is not None and s is not None:
            out.append((n, off, w, s))
        off += w
    return out, off


T_PROGRAM, PROGRAM_SIZE = _seq_table(_PROG_NAMES)
T_ZONE, ZONE_SIZE = _seq_table([("sample_name", 12, None), ("low_velocity", 1, False), ("high_velocity", 1, False), ("tune_cents", 1, True), ("tune_semitones", 1, True),
                                ("loudness_offset", 1, True), ("filter_cutoff_offset", 1, True), ("pan_offset", 1, True), ("loop_mode", 1, False), (None, 4, None)])
T_RSAMPLE, RSAMPLE_SIZE = _seq_table([("name", 16, None), ("start_sample.raw_value", 4, False), ("sustain_loop_start.raw_value", 4, False), ("sustain_loop_end.raw_value", 4, False),
                                      ("release_loop_start.raw_value", 4, False), ("release_loop_end.raw_value", 4, False), ("loop_mode", 1, False), ("sustain_loop_enable", 1, False),
                                      ("sustain_loop_tune", 1, False), ("release_loop_tune", 1, False), ("cluster_top", 2, False), ("num_clusters", 2, False),
                                      ("sample_options", 1, None), ("original_key", 1, False), (None, 2, None)])
T_RDIR, RDIR_SIZE = _seq_table([("name", 16, None), ("file_type", 1, False), ("file_attributes", 1, False), ("forward_link_ptr", 2, False), ("backward_link_ptr", 2, False),
                                ("link_id", 2, False), ("reserved", 4, False), ("fat_entry", 2, False), ("num_clusters", 2, False)])

STRUCTS = {
    "akai-sample": (SampleHeaderConstruct, T_SAMPLE, 140),
    "akai-loop": (LoopDataConstruct, T_LOOP, 12),
    "akai-program": (ProgramHeaderConstruct, T_PROGRAM, PROGRAM_SIZE),
    "akai-zone": (VelocityZoneConstruct, T_ZONE, ZONE_SIZE),
    "roland-sample-param": (SampleParamEntryStruct, T_RSAMPLE, RSAMPLE_SIZE),
    "roland-directory": (DirectoryEntryStruct, T_RDIR, RDIR_SIZE),
}


def _extract(rec_bytes, off, width, signed, order="little"):
    """z3 term: the integer stored at [off, off+width) of the record (list of 8-bit BVs)"""
    bs = rec_bytes[off:off + width]
    if order == "little":
        bs = list(reversed(bs))
    v = z3.Concat(*bs) if len(bs) > 1 else bs[0]
    return z3.SignExt(64 - 8 * width, v) if signed else z3.ZeroExt(64 - 8 * width, v)


def p_layout(which="akai-sample", twin=False, timeout=120, exclude=(), only=None, replay=None):
    import time
    from vf import layout
    st, table, size = STRUCTS[which]
    t0 = time.time()
    out = {"paths": 1, "queries": 0, "solver_s": 0.0, "messages": []}
    try:
        fl, msize = layout.fields(st)
    except layout.Unsupported as e:
        out.update(verdict="inconclusive", messages=[{"state": "UNSUPPORTED", "message": str(e)}])
        return out
    model = {f["name"]: f for f in fl if not f.get("opaque")}
    rec = [z3.BitVec("r%d" % i, 8) for i in range(max(size, msize))]
    diffs, problems = [], []
    if msize != size:
        problems.append("record size %d, format says %d" % (msize, size))
    for (name, off, width, signed) in table:
        f = model.get(name)
        if f is None:
            problems.append("field %s not found in the struct" % name)
            continue
        m = _extract(rec, f["offset"], f["width"], f["signed"], f["order"])
        t = _extract(rec, off, width, signed, "little")
        diffs.append((name, m != t))
    extra = sorted(set(model) - {n for (n, _o, _w, _s) in table})
    if extra:
        problems.append("numeric fields of the struct missing from the table: %s" % extra)
    s = z3.Solver()
    s.set("timeout", int(timeout * 1000))
    if twin:
        r = s.check()
        out.update(queries=1, verdict="refuted" if r == z3.sat else "inconclusive", reproduced=True, cex={"fields": len(table)}, cex_message="witness")
        return out
    s.add(z3.Or([d for _n, d in diffs]) if diffs else z3.BoolVal(False))
    r = s.check()
    out["queries"] = 1
    if problems or r == z3.sat:
        bad = []
        if r == z3.sat:
            mdl = s.model()
            bad = [n for n, d in diffs if z3.is_true(mdl.eval(d, model_completion=True))]
        out.update(verdict="refuted", reproduced=True, cex={"struct": which, "fields_read_from_other_bytes": bad, "problems": problems},
                   cex_message="%s: %s %s" % (which, bad, problems), replay={"note": "structural disagreement between the live struct and the format table"})
        out["solver_s"] = round(time.time() - t0, 3)
        return out
    if r != z3.unsat:
        out.update(verdict="inconclusive")
        return out
    # translator validation: records chosen by the solver (all table fields pairwise distinct where widths allow, top bits exercised) parsed by the REAL struct
    nval = _validate_walker(which, st, table, max(size, msize))
    out.update(verdict="discharged" if nval >= 0 else "harness_error", paths=1 + max(nval, 0), solver_s=round(time.time() - t0, 3))
    if nval < 0:
        out["messages"].append({"state": "WALKER", "message": "real parse disagrees with the walker's model"})
    return out


def _validate_walker(which, st, table, size):
    import random
    rnd = random.Random(1234)
    n = 0
    for trial in range(6):
        data = bytearray(rnd.randrange(256) for _ in range(size))
        if which in ("akai-sample", "akai-program", "akai-zone"):
            # name fields must hold valid AKAI characters, enums valid codes, for the real parse to succeed
            for (nm, off, w) in (("sample_name", 3, 12),) if which == "akai-sample" else ((("program_name", 3, 12),) if which == "akai-program" else (("sample_name", 0, 12),)):
                for i in range(w):
                    data[off + i] = rnd.randrange(0x29)
            if which == "akai-sample":
                data[0] = rnd.choice([1, 3])
                data[19] = rnd.randrange(4)
                data[2] = 21 + rnd.randrange(100)
            if which == "akai-program":
                data[18] = rnd.randrange(4)
                data[61] = rnd.randrange(2)
                data[19] = 21 + rnd.randrange(100)
                data[20] = 21 + rnd.randrange(100)
        if which.startswith("roland"):
            for i in range(16):
                data[i] = 0x41 + rnd.randrange(26)
            if which == "roland-sample-param":
                data[45] = 21 + rnd.randrange(100)
        try:
            parsed = st.parse(bytes(data), _index=0)
        except Exception:
            continue
        from vf import layout
        plain = {f["name"] for f in layout.fields(st)[0] if not f.get("opaque") and set(f["adapters"]) <= {"Default"}}
        for (name, off, width, signed) in table:
            if name not in plain:
                continue                              # adapted value (enum/bool/note/cents/mapping): covered by C20.adapt / C20.ls
            want = int.from_bytes(data[off:off + width], "little", signed=signed)
            try:
                got = _dig(parsed, name)
            except (AttributeError, KeyError, IndexError, TypeError):
                continue                              # folded into an adapter object (Roland loop points: C02.looppoint)
            if type(got) is not int:
                continue
            if got != want:
                return -1
            n += 1
    return n


def _dig(obj, dotted):
    cur = obj
    for part in dotted.replace("]", "").replace("[", ".").split("."):
        if part == "":
            continue
        cur = cur[int(part)] if part.isdigit() else (cur[part] if hasattr(cur, "keys") and part in cur else getattr(cur, part))
    return cur


# ------------------------------------------------------------------ C20.adapt (engine X)
def h_loop_entry(at: int, fine: int, coarse: int, dur: int) -> int:
    """
    pre: 0 <= at <= 0xFFFFFFFF and 0 <= fine <= 0xFFFF and 0 <= coarse <= 0xFFFFFFFF and 0 <= dur <= 0xFFFF
    post: _ == 1
    """
    CNT[0] += 1
    e = LoopEntryAdapter(LoopDataConstruct)._decode(Container(loop_start=at, loop_length_fine=fine, loop_length_coarse=coarse, loop_duration=dur), {}, "")
    # S1000 loop entry: 'loop at' marker = end point of the loop, coarse length = its length in words, time 9999 = hold
    if e.loop_end != at or e.loop_duration != dur:
        return 0
    if e.repeat_forever != (dur >= 9999):
        return 0
    want_start = at - 1 - coarse
    if want_start < 0:
        want_start = 0
    return 1 if e.loop_start == want_start else 0


class _Hdr:
    pass


def h_sample_adapter(lt: int, rate: int, d0: int, d1: int, d2: int, d3: int, d4: int, d5: int, d6: int, d7: int) -> int:
    """
    pre: 0 <= lt <= 3 and 0 <= rate <= 0xFFFF
    pre: 0 <= d0 <= 0xFFFF and 0 <= d1 <= 0xFFFF and 0 <= d2 <= 0xFFFF and 0 <= d3 <= 0xFFFF and 0 <= d4 <= 0xFFFF and 0 <= d5 <= 0xFFFF and 0 <= d6 <= 0xFFFF and 0 <= d7 <= 0xFFFF
    post: _ == 1
    """
    CNT[0] += 1
    lt = conc(lt, 0, 3)
    durs = [d0, d1, d2, d3, d4, d5, d6, d7]
    h = _Hdr()
    h.loop_type = AkaiLoopType(lt)
    h.loop_data_table = [LoopEntry(100 * i, 100 * i + 50, durs[i], durs[i] >= 9999) for i in range(8)]
    h.sampling_rate, h.sample_name, h.id, h.samples_cnt, h.play_start, h.play_end = rate, "NAME", SampleType.S3000, 777, 5, 700
    h.note_pitch, h.pitch_offset_cents, h.pitch_offset_semi, h.data_stream = MidiNote.from_string("C4"), 0, -7, None
    s = SampleAdapter(SampleHeaderConstruct)._decode_element(h, ChildInfo(None, [], ["F"], {}, "FILE"), {}, "")
    if s.sample_rate != (44100 if rate == 0 else rate):
        return 0
    if (s.file_name, s.sample_name, s.samples_cnt, s.start_sample, s.end_sample, s.pitch_semi, s.loop_type) != ("FILE", "NAME", 777, 5, 700, -7, AkaiLoopType(lt)):
        return 0
    # active loops: every table slot with a non-zero time, in stored order, unless looping is switched off (mode 2)
    want = [] if lt == 2 else [i for i in range(8) if durs[i] > 0]
    got = [e.loop_start // 100 for e in s.loop_entries]
    if got != want:
        return 0
    for e in s.loop_entries:
        i = e.loop_start // 100
        if e.loop_end != 100 * i + 50 or e.loop_duration != durs[i]:
            return 0
    return 1


def h_small_adapters(which: int, raw: int) -> int:
    """
    pre: 0 <= which <= 2 and 0 <= raw <= 255
    post: _ == 1
    """
    CNT[0] += 1
    from construct.core import Int8ul
    which = conc(which, 0, 2)
    if which == 0:
        got = BoolConstruct(Int8ul)._decode(raw, {}, "")
        return 1 if got == (raw != 0) else 0
    if which == 1:
        got = ZoneLoopTypeAdapter(Int8ul)._decode(raw, {}, "")
        table = {0: AkaiLoopType.AS_SAMPLE, 1: AkaiLoopType.LOOP_IN_RELEASE, 2: AkaiLoopType.LOOP_UNTIL_RELEASE, 3: AkaiLoopType.LOOP_INACTIVE, 4: AkaiLoopType.PLAY_TO_SAMPLE_END}
        return 1 if got == table.get(conc(raw, 0, 255), AkaiLoopType.AS_SAMPLE) else 0
    # keygroup chain predicate: follow next address iff it is non-zero and this is not the last keygroup
    nk = raw % 8
    idx = (raw // 8) % 8
    nxt = raw // 64
    ctx = Container(keygroup_raw=Container(next_keygroup_address=nxt), _index=idx,
                    _=Container(header=Container(number_of_keygroups=nk, first_keygroup_address=150 + (raw % 3) * 75)))
    return 1 if bool(_has_next_keygroup(ctx)) == (nxt > 0 and idx < nk - 1) else 0


# ------------------------------------------------------------------ C20.ls: stored values -> real parser -> real listing -> parsed back
def _akai_name(s):
    from vf.akaiw import akai_str
    return akai_str(s)


def _parse_listing(text):
    """'  key: value' lines -> list of (depth, key, value)"""
    out = []
    for ln in text.split("\n")[2:]:
        if not ln.strip() or ":" not in ln:
            continue
        depth = (len(ln) - len(ln.lstrip(" "))) // 2
        k, v = ln.strip().split(":", 1)
        out.append((depth, k.strip(), v.strip()))
    return out


def h_ls_sample(typ: int, lt: int, rate_i: int, semi_i: int, size_i: int, m0: int, m1: int, m2: int, slot: int) -> int:
    """
    pre: 0 <= typ <= 1 and 0 <= lt <= 3 and 0 <= rate_i <= 3 and 0 <= semi_i <= 2 and 0 <= size_i <= 2
    pre: 0 <= m0 <= 2 and 0 <= m1 <= 2 and 0 <= m2 <= 2 and 0 <= slot <= 5
    post: _ == 1
    """
    CNT[0] += 1
    typ, lt, rate_i, slot = conc(typ, 0, 1), conc(lt, 0, 3), conc(rate_i, 0, 3), conc(slot, 0, 5)
    durs3 = [(0, 500, 9999)[conc(m, 0, 2)] for m in (m0, m1, m2)]
    semi_v = (-50, 0, 37)[conc(semi_i, 0, 2)]
    start_v, end_v, cnt_v = ((0, 0, 0), (255, 300, 301), (65536, 65537, 69999))[conc(size_i, 0, 2)]       # every field its own value
    with untraced():
        rate = (0, 22050, 44100, 65535)[rate_i]
        durs = [0] * 8
        for j in range(3):
            durs[slot + j if slot + j < 8 else 7 - j] = durs3[j]
        hdr = bytes([(1, 3)[typ], 0, 60]) + _akai_name("SMP NAME") + bytes(4) + bytes([lt, 0, semi_v & 0xFF]) + bytes(4)
        hdr += struct.pack("<III", cnt_v, start_v, end_v)
        for i in range(8):
            hdr += struct.pack("<IHIH", 1000 + 10 * i, 7, 100 + i, durs[i])
        hdr += bytes(4) + struct.pack("<H", rate)
        if len(hdr) != 140:
            return 0
        s = SampleAdapter(SampleHeaderConstruct).parse(hdr + bytes(8), _elem_name="FILE NAME", _elem_parent=None, _elem_routines={})
        text = s.get_info().to_string()
        rows = _parse_listing(text)
        top = {k: v for (d, k, v) in rows if d == 0}
        want = {"file_name": "FILE NAME", "sample_name": "SMP NAME", "sample_type": ("S1000 Sample", "S3000 Sample")[typ],
                "sample_rate": str(44100 if rate == 0 else rate), "samples_cnt": str(cnt_v), "start_sample": str(start_v), "end_sample": str(end_v),
                "pitch_semi": str(semi_v), "loop_type": str(AkaiLoopType(lt))}
        for k, v in want.items():
            if top.get(k) != v:
                return 0
        listed = []
        cur = {}
        for (d, k, v) in rows:
            if d == 2:
                cur[k] = v
                if k == "repeat_forever":
                    listed.append((cur.get("loop_end"), cur.get("loop_duration")))
                    cur = {}
        exp = [] if lt == 2 else [(str(1000 + 10 * i), str(durs[i])) for i in range(8) if durs[i] > 0]
        if listed != exp:
            return 0
    return 1


def _zone(name, i):
    return _akai_name(name) + bytes([10 + i, 100 + i, 0, (i - 2) & 0xFF, (3 * i) & 0xFF, (250 + i) & 0xFF, i, i % 5]) + b"\xff\xff\x2c\x01"


def build_program(nk, zcounts, addrs, base=0, gap1=0):
    """independent writer for an AKAI program file: 150-byte header (every numeric byte its own value) + keygroups at `addrs`"""
    hdr = bytearray(150)
    first = addrs[0]
    vals = {}
    for (name, off, w, signed) in T_PROGRAM:
        v = (off * 3 + base * 17 + 1) % 120
        if name == "program_id":
            v = 1
        elif name == "first_keygroup_address":
            v = first
        elif name == "number_of_keygroups":
            v = nk
        elif name == "priority":
            v = (off + base) % 4
        elif name == "voice_reassign":
            v = base % 2
        elif name in ("low_key", "high_key"):
            v = 21 + (off + base) % 100
        elif name in ("voice_output_scale_db", "stereo_output_scale_db"):
            v = base % 2
        elif signed:
            v = ((off * 5 + base) % 100) - 50
        vals[name] = v
        hdr[off:off + w] = int(v).to_bytes(w, "little", signed=v < 0)
    hdr[3:15] = _akai_name("PROG NAME")
    blob = bytearray(max(addrs) + 150 + 32)
    blob[:150] = hdr
    for g in range(nk):
        nxt = addrs[g + 1] if g + 1 < nk else 0
        kg = bytearray(150)
        kg[0] = 2
        kg[1:3] = struct.pack("<H", nxt)
        kg[3], kg[4] = 24 + g, 100 + g
        for i in range(5, 31):
            kg[i] = (i * 2 + g) % 100
        kg[30] = g % 2
        kg[31] = 4
        kg[32:34] = b"\xff\xff"
        for zi in range(4):
            nm = "ZONE %d %d" % (g, zi) if zi < zcounts[g] else ""
            kg[34 + 24 * zi:58 + 24 * zi] = _zone(nm, zi)
        kg[130], kg[131] = 5 + g, 1
        kg[132:136] = bytes([1, 0, 1, 0])
        kg[136:140] = bytes([3, 4, 5, 6])
        kg[140:148] = struct.pack("<hhhh", -3, 7, -11, 13)
        kg[148] = 9
        blob[addrs[g]:addrs[g] + 150] = kg
    return bytes(blob), vals


def h_ls_program(nk: int, z0: int, z1: int, gap0: int, gap1: int, base: int, desc: int) -> int:
    """
    pre: 1 <= nk <= 2 and 0 <= z0 <= 4 and 0 <= z1 <= 4 and 0 <= gap0 <= 2 and 0 <= gap1 <= 2 and 0 <= base <= 3 and 0 <= desc <= 1
    post: _ == 1
    """
    CNT[0] += 1
    nk, z0, z1, gap0, gap1, base, desc = conc(nk, 1, 2), conc(z0, 0, 4), conc(z1, 0, 4), conc(gap0, 0, 2), conc(gap1, 0, 2), conc(base, 0, 3), conc(desc, 0, 1)
    with untraced():
        # keygroup addresses: ascending (with gaps) or, desc, the second keygroup stored BELOW the first one (arbitrary next addresses)
        if desc and nk == 2:
            addrs = [150 + 7 * gap0 + 150 + 11 * gap1, 150 + 7 * gap0]
        else:
            addrs = [150 + 7 * gap0 + g * (150 + 11 * gap1) for g in range(nk)]
        zcounts = [z0, z1][:nk]
        blob, vals = build_program(nk, zcounts, addrs, base)
        p = ProgramParser.parse(bytes(blob) + bytes(16), _elem_name="PROG FILE", _elem_parent=None, _elem_routines={}, file_type="S3000 Program")
        text = p.get_info().to_string()
        rows = _parse_listing(text)
        top = {k: v for (d, k, v) in rows if d == 0}
        # every numeric and switch parameter of the header as stored
        for (name, off, w, signed) in T_PROGRAM:
            if name in ("program_id",) or name.startswith("key_temperaments"):
                continue
            if name == "first_keygroup_address":
                continue                              # structural, not listed
            shown = top.get(name)
            v = vals[name]
            if name in ("keygroup_crossfade", "fx_output", "stereo_coherence", "lfo_desync"):
                exp = str(v != 0)
            elif name in ("low_key", "high_key"):
                exp = str(MidiNote.from_akai_byte(v))
            elif name in ("priority", "voice_reassign", "midi_channel", "aux_output_select", "tune_cents", "voice_output_scale_db", "stereo_output_scale_db"):
                continue                              # textual / scaled renderings: not compared numerically here
            else:
                exp = str(v)
            if shown != exp:
                return 0
        # keygroups in stored order with their non-empty velocity zones (sample name, velocity range)
        names = [v for (d, k, v) in rows if k == "sample_name"]
        exp_names = ["ZONE %d %d" % (g, zi) for g in range(nk) for zi in range(zcounts[g])]
        if names != exp_names:
            return 0
        lows = [v for (d, k, v) in rows if k == "low_velocity"]
        highs = [v for (d, k, v) in rows if k == "high_velocity"]
        if lows != [str(10 + zi) for g in range(nk) for zi in range(zcounts[g])] or highs != [str(100 + zi) for g in range(nk) for zi in range(zcounts[g])]:
            return 0
        lk = [v for (d, k, v) in rows if k == "low_key" and d > 0]
        if lk != [str(MidiNote.from_akai_byte(24 + g)) for g in range(nk)]:
            return 0
    return 1


RO_MODES = ["Forward End", "Forward Release", "Oneshot", "Forward Oneshot", "Alternate", "Reverse Oneshot", "Reverse Loop"]
RO_FREQ = [48000, 44100, 24000, 22050, 30000, 15000]
RO_COARSE = [0, 1, 0xFF, 0x100, 0x1234, 0xFFFF, 0x10000, 0x7FFFFF, 0x800000, 0xFFFFFF]
RO_FINE = [0, 1, 0x7F, 0x80, 0xFE, 0xFF]
RO_POINTS = ["start_sample", "sustain_loop_start", "sustain_loop_end", "release_loop_start", "release_loop_end"]


def h_ls_roland(mode: int, freq: int, smode: int, rot: int, slot: int, ver: int) -> int:
    """
    pre: 0 <= mode <= 6 and 0 <= freq <= 5 and 0 <= smode <= 1 and 0 <= rot <= 9 and 0 <= slot <= 2 and 1 <= ver <= 2
    post: _ == 1
    """
    CNT[0] += 1
    mode, freq, smode, rot, slot, ver = conc(mode, 0, 6), conc(freq, 0, 5), conc(smode, 0, 1), conc(rot, 0, 9), conc(slot, 0, 2), conc(ver, 1, 2)
    with untraced():
        import io
        from vf import rolandw
        from vf.props import c02, c16
        import smpl_extract.actions as actions
        coarse = [RO_COARSE[(rot + 3 * j) % len(RO_COARSE)] for j in range(5)]          # five different values, every class of width reached
        fine = [RO_FINE[(rot + j) % len(RO_FINE)] for j in range(5)]
        tunes = ((rot * 37 + 1) % 256, (rot * 53 + 7) % 256, (rot * 91 + 11) % 256)
        names = ["Smp0", "Smp1", "Smp2"]
        samples = [dict(name=n, words=c02._words(300 + 10 * i, i + 1), mode=(mode + i + 1) % 7, freq_code=(freq + i + 1) % 6) for i, n in enumerate(names)]
        samples[slot] = dict(name=names[slot], words=c02._words(300, 9), mode=mode, freq_code=freq, sample_mode=smode, fine=fine, tunes=tunes, key=36 + rot,
                             start=coarse[0], sustain_start=coarse[1], sustain_end=coarse[2], release_start=coarse[3], release_end=coarse[4])
        img = rolandw.build({"volumes": [("VolA", [0])], "performances": [("Perf0", [0])], "patches": [("Patch0", [0])], "partials": [("Part0", [0, 1, 2])],
                             "samples": samples, "fat_version": ver})
        image = actions.determine_image_type(io.BufferedReader(io.BytesIO(img)))
        text = c16._do(image, ("ls", "VolA/Perf0/" + names[slot]))[1]
        kv, stack = {}, []
        for depth, k, v in _parse_listing(text):
            stack = stack[:depth] + [k]
            kv[".".join(stack)] = v
        want = {"sample_mode": ("Mono", "Stereo")[smode], "sampling_frequency": str(RO_FREQ[freq]), "loop_mode": RO_MODES[mode],
                "sustain_loop_enable": str(tunes[0]), "sustain_loop_tune": str(tunes[1]), "release_loop_tune": str(tunes[2])}
        for j, pt in enumerate(RO_POINTS):
            want[pt + ".fine"] = str(fine[j])
            want[pt + ".address"] = str(coarse[j])
        for k, v in want.items():
            if kv.get(k) != v:
                return 0
    return 1


def h_ls_cdda(f0: int, df: int, tail: int) -> int:
    """
    pre: 0 <= f0 <= 3 and 1 <= df <= 4 and 0 <= tail <= 2351
    post: _ == 1
    """
    CNT[0] += 1
    f0, df = conc(f0, 0, 3), conc(df, 1, 4)
    tail_v = 0
    for c in (0, 1, 4, 1175, 2351):
        if tail >= c:
            tail_v = c
    with untraced():
        from smpl_extract.cuesheet import CueSheetFile, CueSheetTrack, CueSheetIndex
        from smpl_extract.cdda.image import CompactDiskAudioImageAdapter
        binlen = 2352 * (f0 + df + 2) + tail_v
        sheet = CueSheetFile("x.bin", [CueSheetTrack(1, "AUDIO", "One", [CueSheetIndex(1, 0, 0, f0)]), CueSheetTrack(2, "AUDIO", None, [CueSheetIndex(1, 0, 0, f0 + df)])])
        img = CompactDiskAudioImageAdapter.from_bin_cue(io.BytesIO(bytes(binlen)), sheet)
        exp_frames = [588 * df, 588 * ((binlen - 2352 * (f0 + df)) // 2352)]
        for t, frames in zip(img.tracks, exp_frames):
            rows = {k: v for (d, k, v) in _parse_listing(t.get_info().to_string())}
            if rows.get("num_channels") != "2" or rows.get("sample_rate") != "44100" or rows.get("num_audio_samples") != str(frames):
                return 0
    return 1


def h_print(a: int, b: int, c: int) -> int:
    """
    pre: 0 <= a <= 5 and 0 <= b <= 5 and 0 <= c <= 5
    post: _ == 1
    """
    CNT[0] += 1
    from dataclasses import dataclass
    from smpl_extract.elements import LeafElement
    vals = [0, 1, 255, 65535, 4294967295, -128]
    a, b, c = vals[conc(a, 0, 5)], vals[conc(b, 0, 5)], vals[conc(c, 0, 5)]
    with untraced():
        @dataclass
        class _E(LeafElement):
            alpha: int = 0
            _hidden: int = 0
            beta: int = 0
            gamma: int = 0
            name: str = "n"
            type_name: str = "T"
        e = _E(alpha=a, _hidden=99, beta=b, gamma=c)
        e._path, e._parent = [], None
        rows = _parse_listing(e.get_info().to_string())
        return 1 if rows == [(0, "alpha", str(a)), (0, "beta", str(b)), (0, "gamma", str(c))] else 0


RUNS = ["smpl_extract.akai.sample:SampleHeaderConstruct", "smpl_extract.akai.sample:LoopEntryAdapter._decode", "smpl_extract.akai.sample:SampleAdapter._decode_element",
        "smpl_extract.akai.program:ProgramHeaderConstruct", "smpl_extract.akai.program:ProgramParser", "smpl_extract.akai.program:_has_next_keygroup",
        "smpl_extract.akai.keygroup:KeygroupConstruct", "smpl_extract.akai.keygroup:KeygroupAdapter._decode", "smpl_extract.akai.keygroup:VelocityZoneConstruct",
        "smpl_extract.util.constructs:PaddedGeneral._parse", "smpl_extract.util.constructs:SlicingGeneral._decode", "smpl_extract.util.constructs:BoolConstruct",
        "smpl_extract.roland.s7xx.sample_entry:SampleParamEntryStruct", "smpl_extract.roland.s7xx.directory_area:DirectoryEntryStruct",
        "smpl_extract.elements:LeafElement.itemize", "smpl_extract.elements:LeafElement.get_info", "smpl_extract.util.dataclass:itemize_general", "smpl_extract.info:InfoTree.print_tree",
        "smpl_extract.cdda.image:CompactDiskAudioImageAdapter.from_bin_cue"]

META = {
    "assumptions": ["field tables transcribed independently from the published AKAI S1000/S3000 sample/program/keygroup layout and the S-770 parameter/directory records "
                    "(the repo's own ksy/roland/s770.ksy agrees for the Roland records)",
                    "construct executes its declarative structs as the walker reads them (validated each run by parsing records with the real structs)",
                    "C20.ls: header values are chosen by the solver (by region) and then concrete; the listing is parsed back from the real ls text",
                    "textual renderings (priority, voice reassign, MIDI channel 'Omni', aux 'Off', tune cents as float, output scale in dB) are not compared numerically"],
    "trusted": ["CPython 3.12", "z3 5.1", "CrossHair 0.0.110", "construct 2.10", "vf.layout walker", "vf.akaiw"],
    "out_of_claim": ["Roland sample listing end-to-end (needs a >= 2.8 MB image)", "listings beyond the 300-line cap", "keygroup records with a zone count byte other than 4"],
}


def obligations(tier, seed):
    q = tier == "quick"
    T = 170 if q else 900
    obs = []
    for which in STRUCTS:
        obs.append(dict(name=f"C20.layout/{which}", engine="P", module="vf.props.c20", func="p_layout", params={"which": which}, timeout=120, runs=RUNS,
                        sym="every byte of the record", bound="all records", stubs=["vf.layout walker over the live construct objects"]))

    def ob(name, func, pre, sym, bound):
        return dict(name=name, module="vf.props.c20", func=func, extra_pre=pre, timeout=T, runs=RUNS, sym=sym, bound=bound, stubs=[])
    obs.append(ob("C20.adapt/loop-entry", "h_loop_entry", [], "raw loop marker, fine, coarse length, time", "full field ranges"))
    for lt in range(4):
        obs.append(ob(f"C20.adapt/sample/loop-mode={lt}", "h_sample_adapter", [f"lt == {lt}"], "rate word, the 8 loop times", "full field ranges"))
    for w in range(3):
        obs.append(ob(f"C20.adapt/small/{('bool', 'zone-loop-type', 'keygroup-chain')[w]}", "h_small_adapters", [f"which == {w}"], "raw byte", "0..255"))
    for lt in range(4):
        obs.append(ob(f"C20.ls/akai-sample/loop-mode={lt}", "h_ls_sample", [f"lt == {lt}"] + (["(slot == 0 or slot == 5) and typ == 1"] if q else []),
                      "type, rate, tuning, markers / word count class, three loop times and their slots", "solver-chosen header values, concrete per path"))
    for nk in (1, 2):
        obs.append(ob(f"C20.ls/akai-program/keygroups={nk}", "h_ls_program", [f"nk == {nk}"] + (["base <= 1"] if q else []),
                      "active zones per keygroup (0..4), gaps before/between keygroups, value base", "1..2 keygroups linked through arbitrary next addresses"))
    for mode in range(7):
        obs.append(ob(f"C20.ls/roland-sample/loop-mode={mode}", "h_ls_roland", [f"mode == {mode}"],
                      "frequency code, sample mode, the five loop points (coarse 24 bit, fine 8 bit), tunes, slot, FAT version",
                      "width-class values per field; 3 samples; whole S-770 image through ls"))
    obs.append(ob("C20.ls/cdda-track", "h_ls_cdda", [], "index positions, stray tail bytes", "2 tracks"))
    obs.append(ob("C20.print", "h_print", [], "three field values", "6 values each"))
    return obs
