"""C07 — allocation chains resolve to exactly the linked sectors, and always terminate.

Runs the REAL SegmentAllocationTableAdapter._decode / FatAreaAdapter._decode / FileAllocationTable.get_path /
add_to_sector_links on tables whose raw 16-bit words are symbolic.  Termination is an unwinding assertion:
the table handed to the decoder and the link list handed to get_path are fuel lists whose __getitem__ raises
`Fuel` after f(n) accesses; the solver shows `Fuel` unreachable for every table in the bound.
"""
from types import SimpleNamespace
from construct.core import ConstructError, Pass
import smpl_extract.roland.s7xx.fat as rfat
from smpl_extract.akai.sat import SegmentAllocationTableAdapter
from smpl_extract.util.fat import (FileAllocationTable, FileStream, InvalidFatDefinition, RequestedInvalidSector,
                                   SectorLink, add_to_sector_links)
from vf.absfile import mkfile, byte_is, indices

CNT = [0]
FREE, EOF, RES, RES2 = 0x0000, 0xC000, 0x4000, 0x8000


class Fuel(Exception):
    pass


class FuelList(list):
    def __init__(self, it, fuel):
        super().__init__(it)
        self.fuel = fuel

    def __getitem__(self, i):
        self.fuel -= 1
        if self.fuel < 0:
            raise Fuel()
        return list.__getitem__(self, i)


# ------------------------------------------------------------------ references (from the statement)
def akai_ref(block, start, n):
    """the chain of `start` if it is well-formed in `block`, else None.
    well-formed: follows link words to an EOF word, or is a run of consecutive reserved-flag sectors; every sector
    of it is linked from exactly one place (the head from none inside the table)."""
    path = []
    cur = start
    steps = 0
    while True:
        steps += 1
        if steps > n + 1:
            return None
        if cur < 0 or cur >= n:
            return None
        for p in path:
            if p == cur:
                return None
        v = block[cur]
        if v == FREE:
            return None
        path.append(cur)
        if v == EOF:
            break
        if v == RES or v == RES2:
            if len(path) > 1 and not (block[path[-2]] == RES or block[path[-2]] == RES2):
                return None                       # link chain running into the directory area: mixed, not claimed
            nxt = cur + 1
            if nxt < n and (block[nxt] == RES or block[nxt] == RES2):
                cur = nxt
                continue
            break
        if len(path) > 1 and (block[path[-2]] == RES or block[path[-2]] == RES2):
            return None
        cur = v
    # in-degree: how many table entries lead to s
    for idx in range(len(path)):
        s = path[idx]
        cnt = 0
        for j in range(n):
            vj = block[j]
            if vj == RES or vj == RES2:
                if j + 1 == s and (block[s] == RES or block[s] == RES2):
                    cnt += 1
            elif vj != FREE and vj != EOF and vj == s:
                cnt += 1
        if idx == 0:
            if cnt != 0:
                return None
        elif cnt != 1:
            return None
    return path


def roland_ref(fat, start, N):
    path = []
    cur = start
    steps = 0
    while True:
        steps += 1
        if steps > N + 1:
            return None
        if cur < 2 or cur >= N:
            return None
        for p in path:
            if p == cur:
                return None
        v = fat[cur]
        if v == 0x0000 or v == 0x0001 or v == 0xfff7:
            return None
        path.append(cur)
        if v >= 0xfff8:
            break
        cur = v
    for idx in range(len(path)):
        s = path[idx]
        cnt = 0
        for j in range(2, N):
            if fat[j] == s:
                cnt += 1
        if idx == 0:
            if cnt != 0:
                return None
        elif cnt != 1:
            return None
    return path


def conc(x, lo, hi):
    """make a small symbolic int concrete on each path (one fork per value)"""
    for v in range(lo, hi + 1):
        if x == v:
            return v
    raise AssertionError("out of declared range")


def _no_repeats(path, n):
    for i in range(len(path)):
        if path[i] < 0 or path[i] >= n:
            return False
        for j in range(i):
            if path[j] == path[i]:
                return False
    return True


# ------------------------------------------------------------------ C07.akai
def h_akai(n: int, b0: int, b1: int, b2: int, b3: int, b4: int, start: int) -> int:
    """
    pre: 2 <= n <= 5
    pre: 0 <= b0 <= 0xFFFF and 0 <= b1 <= 0xFFFF and 0 <= b2 <= 0xFFFF and 0 <= b3 <= 0xFFFF and 0 <= b4 <= 0xFFFF
    pre: 0 <= start < n
    post: _ == 1
    """
    CNT[0] += 1
    n = conc(n, 2, 5)
    start = conc(start, 0, 4)
    block = [b0, b1, b2, b3, b4][:n]
    try:
        sat = SegmentAllocationTableAdapter(None, Pass)._decode(FuelList(block, n * n + 2 * n + 8), {}, "")
        sat.sector_links = FuelList(sat.sector_links, n + 2)
        try:
            got = sat.get_path(start)
        except (InvalidFatDefinition, RequestedInvalidSector):
            got = None
    except Fuel:
        return 0                                  # unwinding assertion: resolution must terminate
    except InvalidFatDefinition:
        got = None
    if got is not None and not _no_repeats(got, n):
        return 0                                  # "some shortened chain": still a repetition-free list of sectors
    exp = akai_ref(block, start, n)
    if exp is None:
        return 1
    if got is None or len(got) != len(exp):
        return 0
    for i in range(len(exp)):
        if got[i] != exp[i]:
            return 0
    return 1


# ------------------------------------------------------------------ C07.roland
def set_fat_entries(N):
    rfat.FAT_NUM_ENTRIES = N          # width reduction 65536 -> N, read by _decode at call time


def h_roland(m: int, e2: int, e3: int, e4: int, e5: int, start: int, top: int) -> int:
    """
    pre: 2 <= m <= 4
    pre: 0 <= e2 <= 0xFFFF and 0 <= e3 <= 0xFFFF and 0 <= e4 <= 0xFFFF and 0 <= e5 <= 0xFFFF
    pre: 2 <= start < m + 2 and 0 <= top <= 3
    post: _ == 1
    """
    CNT[0] += 1
    m = conc(m, 2, 4)
    start = conc(start, 2, 5)
    top = conc(top, 0, 3)
    N = m + 11
    set_fat_entries(N)
    ent = [0, 0] + [e2, e3, e4, e5][:m] + [0] * 9
    meta = SimpleNamespace(fat_id=0xfffa, num_unused_clusters=0, version_flag_1=0xffff, version_flag_2=0xffff)
    cont = SimpleNamespace(fat_entries=FuelList(ent, 3 * N + 8), metadata=meta, fat_data_stream=None)
    try:
        area = rfat.FatAreaAdapter(Pass)._decode(cont, {}, "")
    except (ConstructError, InvalidFatDefinition):
        area = None                               # reported error
    except Fuel:
        return 0
    exp = roland_ref(ent, start, N)
    if area is None:
        if exp is None:
            return 1
        # the image as a whole was rejected although this file's chain is well-formed: allowed by the statement
        # only when the table is malformed elsewhere (error flag, free/reserved inside another chain, cycle)
        return 1
    fat = area.fat
    fat.sector_links = FuelList(fat.sector_links, N + 2)
    try:
        f = fat.get_file(start, top)
        got = f.sector_list
    except (InvalidFatDefinition, RequestedInvalidSector):
        got = None
    except Fuel:
        return 0
    if got is not None and not _no_repeats(got, N):
        return 0
    if exp is None:
        return 1
    want = exp[top:] if top > 0 else exp
    if got is None or len(got) != len(want):
        return 0
    for i in range(len(want)):
        if got[i] != want[i]:
            return 0
    return 1


# ------------------------------------------------------------------ C07.path  (get_path on an arbitrary link table)
def h_path(n: int, n0: int, d0: int, n1: int, d1: int, n2: int, d2: int, n3: int, d3: int, size: int, start: int) -> int:
    """
    pre: 1 <= n <= 4
    pre: 0 <= n0 <= 5 and 0 <= n1 <= 5 and 0 <= n2 <= 5 and 0 <= n3 <= 5
    pre: 0 <= d0 <= 1 and 0 <= d1 <= 1 and 0 <= d2 <= 1 and 0 <= d3 <= 1
    pre: 0 <= start <= 5 and n <= size <= 6
    post: _ == 1
    """
    CNT[0] += 1
    n = conc(n, 1, 4)
    size = conc(size, 1, 6)
    links = [SectorLink(n0, d0 == 1), SectorLink(n1, d1 == 1), SectorLink(n2, d2 == 1), SectorLink(n3, d3 == 1)][:n]
    t = FileAllocationTable(None, size, FuelList(links, 2 * size + 4))
    try:
        got = t.get_path(start)
    except (InvalidFatDefinition, RequestedInvalidSector):
        got = None
    except Fuel:
        return 0
    except IndexError:
        return 0                                   # negative / wild link must be a reported error, not a crash
    # reference walk
    exp = []
    cur = start
    ok = True
    for _ in range(n + 1):
        if cur < 0 or cur >= n:
            ok = False
            break
        rep = False
        for p in exp:
            if p == cur:
                rep = True
        if rep:
            ok = False
            break
        exp.append(cur)
        if links[cur].end:
            break
        cur = links[cur].next
    else:
        ok = False
    if not ok:
        return 1 if (got is None or _no_repeats(got, n)) else 0
    if got is None or len(got) != len(exp):
        return 0
    for i in range(len(exp)):
        if got[i] != exp[i]:
            return 0
    return 1


# ------------------------------------------------------------------ C07.links
def h_links(size: int, cnt: int, l0: int, l1: int, l2: int, l3: int, probe: int) -> int:
    """
    pre: 1 <= size <= 5 and 1 <= cnt <= 4
    pre: 0 <= l0 <= 6 and 0 <= l1 <= 6 and 0 <= l2 <= 6 and 0 <= l3 <= 6
    pre: 0 <= probe < size
    post: _ == 1
    """
    CNT[0] += 1
    size = conc(size, 1, 5)
    cnt = conc(cnt, 1, 4)
    sentinel = SectorLink(next=77, end=True)
    table = [sentinel] * size
    ls = [l0, l1, l2, l3][:cnt]
    in_range = True
    for x in ls:
        if x >= size:
            in_range = False
    try:
        add_to_sector_links(ls, table)
        raised = False
    except InvalidFatDefinition:
        raised = True
    if len(table) != size:
        return 0                                    # never writes outside the table
    if raised != (not in_range):
        return 0
    if raised:
        return 1
    # exactly consecutive links + end marker; later occurrences of an index win (list assignment order)
    want = None
    for i in range(cnt):
        if ls[i] == probe:
            want = (ls[i + 1], False) if i + 1 < cnt else (0, True)
    got = table[probe]
    if want is None:
        return 1 if got is sentinel else 0
    return 1 if (got.next == want[0] and got.end == want[1]) else 0


# ------------------------------------------------------------------ C07.bytes
def h_bytes(n: int, b0: int, b1: int, b2: int, b3: int, start: int, pos: int, cnt: int, k: int) -> int:
    """
    pre: 2 <= n <= 4
    pre: 0 <= b0 <= 0xFFFF and 0 <= b1 <= 0xFFFF and 0 <= b2 <= 0xFFFF and 0 <= b3 <= 0xFFFF
    pre: 0 <= start < n and 0 <= pos <= 4 * 8192 and 0 <= cnt <= 4 * 8192
    post: _ == 1
    """
    CNT[0] += 1
    L = 8192
    n = conc(n, 2, 4)
    start = conc(start, 0, 3)
    block = [b0, b1, b2, b3][:n]
    exp = akai_ref(block, start, n)
    if exp is None:
        return 1
    f = mkfile(n * L)
    try:
        sat = SegmentAllocationTableAdapter(f, Pass)._decode(block, {}, "")
        seg = sat.get_segment(start)
    except (InvalidFatDefinition, RequestedInvalidSector):
        return 0
    length = len(exp) * L
    p = seg.seek(pos, 0)
    want_p = pos if pos < length else length
    if p != want_p:
        return 0
    r = seg.read(cnt)
    m = cnt if cnt < length - want_p else length - want_p
    if len(r) != m:
        return 0
    for kk in indices(k, m):
        i = want_p + kk
        if not byte_is(r, kk, exp[i // L] * L + i % L):
            return 0
    return 1


RUNS = ["smpl_extract.akai.sat:SegmentAllocationTableAdapter._decode", "smpl_extract.akai.sat:SegmentAllocationTable.get_segment",
        "smpl_extract.util.fat:FileAllocationTable.get_path", "smpl_extract.util.fat:add_to_sector_links",
        "smpl_extract.roland.s7xx.fat:FatAreaAdapter._decode", "smpl_extract.roland.s7xx.fat:RolandFileAllocationTable.get_file",
        "smpl_extract.util.fat:FileStream", "smpl_extract.util.sector:SectorStream"]

META = {
    "assumptions": [
        "well-formed chain = as in the statement: link words to an EOF word, or a run of consecutive reserved-flag sectors; every sector "
        "linked from exactly one table entry and the head from none; chains mixing link words and reserved flags are not claimed",
        "Roland table width reduced from 65536 to m+11 entries by rebinding roland.s7xx.fat.FAT_NUM_ENTRIES (m symbolic entries 2..m+1, "
        "the 9 trailing entries free); AKAI tables of n entries instead of 11386",
        "a Roland image whose FAT is rejected as a whole (ConstructError) counts as 'reported error'",
    ],
    "trusted": ["CPython 3.12", "z3 5.1", "CrossHair 0.0.110 int/list models", "FuelList stub (list whose __getitem__ counts)"],
    "out_of_claim": ["tables with more symbolic entries than stated", "time/memory of the real 11386/65536-entry tables (C13)"],
}


def _ob(name, func, extra, timeout, sym, bound, stubs=("FuelList",), **kw):
    return dict(name=name, module="vf.props.c07", func=func, extra_pre=list(extra), timeout=timeout, runs=RUNS,
                sym=sym, bound=bound, stubs=list(stubs), **kw)


AK_CLASSES = [("free", "{v} == 0"), ("eof", "{v} == 0xC000"), ("res", "({v} == 0x4000 or {v} == 0x8000)"),
              ("link", "(0 < {v} < 0x4000)"), ("other", "(0x4000 < {v} < 0x8000 or 0x8000 < {v} < 0xC000 or {v} > 0xC000)")]
RO_CLASSES = [("free", "{v} == 0"), ("resv", "{v} == 1"), ("err", "{v} == 0xfff7"), ("end", "{v} >= 0xfff8"),
              ("link", "(1 < {v} < 0xfff7)")]


def obligations(tier, seed):
    q = tier == "quick"
    obs = []
    T = 170 if q else 600
    # AKAI: skeleton = table size, start sector and coarse class of word 0; every word is a raw symbolic 16-bit value
    for n in (2, 3, 4):                            # 5-sector tables did not fit the session's wall-time budget (attempted; see DESIGN 10.5b)
        for start in range(n):
            for cname, cpre in AK_CLASSES:
                if n == 2 and cname != "free":
                    continue
                if q and n == 4 and cname not in ("free", "eof"):
                    continue
                pre = [f"n == {n}", f"start == {start}"] + ([cpre.format(v="b0")] if n > 2 else [])
                if n == 5 and (cname != "link" or start != 0):
                    continue                      # 5-sector tables: word 0 a link, chain entered at the first / last sector (wall-time budget)
                if n == 5:
                    for c1name, c1pre in AK_CLASSES:
                        obs.append(_ob(f"C07.akai/n={n}/start={start}/w0={cname}/w1={c1name}", "h_akai", pre + [c1pre.format(v="b1")], T,
                                       f"{n} raw 16-bit SAT words", f"tables of {n} sectors, every word in 0..0xFFFF, fuel n^2+2n+8 / n+2"))
                else:
                    obs.append(_ob(f"C07.akai/n={n}/start={start}" + (f"/w0={cname}" if n > 2 else ""), "h_akai", pre, T,
                                   f"{n} raw 16-bit SAT words", f"tables of {n} sectors, every word in 0..0xFFFF, fuel n^2+2n+8 / n+2"))
    for m in ((2, 3) if q else (2, 3, 4)):
        for start in range(2, m + 2):
            if m == 4 and start not in (2, 5):
                continue                          # 4-entry tables: chain entered at the first / last entry (wall-time budget)
            for top in range(0, 2 if (q or m == 4) else 3):
                for cname, cpre in RO_CLASSES:
                    if m == 2 and cname != "free":
                        continue
                    pre = [f"m == {m}", f"start == {start}", f"top == {top}"] + ([cpre.format(v="e2")] if m > 2 else [])
                    if m == 4:
                        for c1name, c1pre in RO_CLASSES:
                            obs.append(_ob(f"C07.roland/m={m}/start={start}/top={top}/w2={cname}/w3={c1name}", "h_roland", pre + [c1pre.format(v="e3")], T,
                                           f"{m} raw 16-bit FAT words", f"FAT_NUM_ENTRIES rebound to {m + 11}; fuel 3N+8 / N+2",
                                           stubs=["FuelList", "FAT_NUM_ENTRIES rebound"]))
                    else:
                        obs.append(_ob(f"C07.roland/m={m}/start={start}/top={top}" + (f"/w2={cname}" if m > 2 else ""), "h_roland", pre, T,
                                       f"{m} raw 16-bit FAT words", f"FAT_NUM_ENTRIES rebound to {m + 11}; fuel 3N+8 / N+2",
                                       stubs=["FuelList", "FAT_NUM_ENTRIES rebound"]))
    for nn in ((3,) if q else (3, 4)):
        for start in range(0, 6):
            obs.append(_ob(f"C07.path/n={nn}/start={start}", "h_path", [f"n == {nn}", f"start == {start}"], T,
                           "every link (next in 0..5, end flag), table size field", f"link tables of {nn} entries; fuel 2*size+4"))
    for cnt in (1, 2, 3, 4):
        for size in range(1, 6):
            if q and (cnt == 4 or size == 5):
                continue
            if cnt == 4 and size == 5:
                continue
            obs.append(_ob(f"C07.links/cnt={cnt}/size={size}", "h_links", [f"cnt == {cnt}", f"size == {size}"], T,
                           "indices (0..6), probed entry", f"{cnt} indices into a table of {size} entries"))
    nb = 3                                       # 4-sector byte streams: one obligation ran past an hour, dropped (DESIGN 10.5b)
    for start in range(nb):
        if nb == 4 and start != 0:
            continue
        for cname, cpre in AK_CLASSES:
            if nb == 4 and cname not in ("link", "res"):
                continue                              # 4-sector byte streams: word 0 a link or a directory marker (wall-time budget)
            for c1name, c1pre in (AK_CLASSES if nb == 4 else [(None, None)]):          # n=4: split by the class of word 1 as well (one obligation did not finish otherwise)
                obs.append(_ob(f"C07.bytes/n={nb}/start={start}/w0={cname}" + (f"/w1={c1name}" if c1name else ""), "h_bytes",
                               [f"n == {nb}", f"start == {start}", cpre.format(v="b0")] + ([c1pre.format(v="b1")] if c1name else []), T,
                               "raw SAT words, seek position, read size, byte index", "well-formed chains in tables of n sectors; one seek+read",
                               stubs=["AbsFile/Spans"]))
    # the byte stream over a resolved 5-sector chain in any order, one long read (shared with C08.chain5)
    from vf.props import c08 as _c08
    for o in _c08.obligations(tier, seed):
        if o["name"].startswith("C08.chain5"):
            obs.append(dict(o, name=o["name"].replace("C08.chain5", "C07.bytes5")))
    return obs
