"""C18 — name, note and tuning codecs round-trip over their whole domains."""
import z3
from smpl_extract.akai.akai_string import (_char_format_convert_byte, _fast_akai_to_ascii_byte, char_ascii_to_akai,
                                           char_akai_to_ascii)
from smpl_extract.akai.data_types import CharFormat, InvalidCharacter, parse_akai_tune_cents, build_akai_tune_cents
from smpl_extract.midi import MidiNote, ScaleDegree
from vf.util import conc

CNT = [0]
# the 41 characters of the AKAI set, from the published format notes (independent of data_types.CHAR_MAP_*):
AKAI_ASCII = "0123456789 ABCDEFGHIJKLMNOPQRSTUVWXYZ#+-."


def h_char_akai(b: int) -> int:
    """
    pre: 0 <= b <= 255
    post: _ == 1
    """
    CNT[0] += 1
    try:
        a = _fast_akai_to_ascii_byte(b)
    except InvalidCharacter:
        return 1 if b > 0x28 else 0
    if b > 0x28:
        return 0
    if a != ord(AKAI_ASCII[conc(b, 0, 40)]):
        return 0
    try:
        back = _char_format_convert_byte(a, CharFormat.ASCII, CharFormat.AKAI)
    except InvalidCharacter:
        return 0
    return 1 if back == b else 0


def h_char_ascii(c: int) -> int:
    """
    pre: 0 <= c <= 255
    post: _ == 1
    """
    CNT[0] += 1
    valid = False
    for ch in AKAI_ASCII:
        if c == ord(ch):
            valid = True
    try:
        a = _char_format_convert_byte(c, CharFormat.ASCII, CharFormat.AKAI)
    except InvalidCharacter:
        return 0 if valid else 1
    if not valid:
        return 0
    if not (0 <= a <= 0x28):
        return 0
    try:
        back = _fast_akai_to_ascii_byte(a)
    except InvalidCharacter:
        return 0
    return 1 if back == c else 0


def h_char_str(n: int, b0: int, b1: int, b2: int, b3: int, b4: int, b5: int, b6: int, b7: int, b8: int, b9: int, b10: int,
               b11: int) -> int:
    """
    pre: 0 <= n <= 12
    pre: 0 <= b0 <= 40 and 0 <= b1 <= 40 and 0 <= b2 <= 40 and 0 <= b3 <= 40 and 0 <= b4 <= 40 and 0 <= b5 <= 40
    pre: 0 <= b6 <= 40 and 0 <= b7 <= 40 and 0 <= b8 <= 40 and 0 <= b9 <= 40 and 0 <= b10 <= 40 and 0 <= b11 <= 40
    post: _ == 1
    """
    CNT[0] += 1
    n = conc(n, 0, 12)
    raw = [b0, b1, b2, b3, b4, b5, b6, b7, b8, b9, b10, b11][:n]
    # per-character maps composed over a whole name, as AkaiString does (list in, list out; str/bytes are C-level)
    try:
        asc = [_fast_akai_to_ascii_byte(x) for x in raw]
        back = [_char_format_convert_byte(x, CharFormat.ASCII, CharFormat.AKAI) for x in asc]
    except InvalidCharacter:
        return 0
    if len(back) != n:
        return 0
    for i in range(n):
        if back[i] != raw[i]:
            return 0
    return 1


API_CLASSES = " 0AZ#."          # blank (a valid AKAI character, code 10), digit, first / last letter, punctuation


def h_char_api(n: int, k0: int, k1: int, k2: int, k3: int) -> int:
    """
    pre: 0 <= n <= 4 and 0 <= k0 <= 5 and 0 <= k1 <= 5 and 0 <= k2 <= 5 and 0 <= k3 <= 5
    post: _ == 1
    """
    CNT[0] += 1
    n = conc(n, 0, 4)
    ks = [conc(k, 0, 5) for k in (k0, k1, k2, k3)[:n]]
    from vf.util import untraced
    with untraced():
        # the PUBLIC converters on whole names (str and bytes inputs), incl. leading / trailing / only blanks
        from smpl_extract.akai.akai_string import AkaiPaddedString
        name = "".join(API_CLASSES[k] for k in ks)
        codes = bytes(AKAI_ASCII.index(ch) for ch in name)
        if char_ascii_to_akai(name) != codes or char_ascii_to_akai(name.encode("ascii")) != codes:
            return 0
        if char_akai_to_ascii(codes) != name or char_akai_to_ascii(list(codes)) != name:
            return 0
        field = AkaiPaddedString(12)
        raw = field.build(name)
        if raw != codes + bytes([10]) * (12 - n):
            return 0                                   # the 12-byte field: the name's codes, padded with the blank code
        if field.parse(raw) != name.rstrip(" "):
            return 0                                   # trailing blanks are the padding; everything else comes back
    return 1


def h_note_byte(b: int, which: int) -> int:
    """
    pre: 21 <= b <= 255 and 0 <= which <= 1
    post: _ == 1
    """
    CNT[0] += 1
    if which == 0:
        return 1 if MidiNote.from_akai_byte(b).to_akai_byte() == b else 0
    return 1 if MidiNote.from_midi_byte(b).to_midi_byte() == b else 0


def h_note_byte_low(b: int, which: int) -> int:
    """
    pre: 0 <= b <= 20 and 0 <= which <= 1
    post: _ == 1
    """
    CNT[0] += 1
    # bytes below A0 (21): the statement says "for every byte value"
    if which == 0:
        return 1 if MidiNote.from_akai_byte(b).to_akai_byte() == b else 0
    return 1 if MidiNote.from_midi_byte(b).to_midi_byte() == b else 0


def _field_codecs():
    """the note FIELD codecs the parsers really use (construct ExprAdapters wrapping the MidiNote conversions): AKAI sample / keygroup notes,
    the Roland sample's original key, the WAV smpl chunk's unity note"""
    from construct import Int8ul, ExprAdapter
    from smpl_extract.akai.data_types import AkaiMidiNote
    from smpl_extract.roland.s7xx.sample_entry import RolandMidiNote
    from smpl_extract.formats.wav import WavSampleChunkStruct
    wav = [sc for sc in WavSampleChunkStruct.subcons if getattr(sc, "name", None) == "midi_note"][0].subcon
    assert isinstance(wav, ExprAdapter)
    return [(AkaiMidiNote(Int8ul), 0), (RolandMidiNote(Int8ul), 1), (wav, 1)]


def h_note_field(b: int, which: int) -> int:
    """
    pre: 0 <= b <= 255 and 0 <= which <= 2
    post: _ == 1
    """
    CNT[0] += 1
    codec, kind = _field_codecs()[which]
    note = codec._decode(b, {}, "")
    want = MidiNote.from_akai_byte(b) if kind == 0 else MidiNote.from_midi_byte(b)
    if not (note.scale_degree == want.scale_degree and note.is_sharp == want.is_sharp and note.octave == want.octave):
        return 0                                   # the field decodes to the note the number stands for
    return 1 if codec._encode(note, {}, "") == b else 0


def h_note_text(deg: int, sharp: int, octave: int) -> int:
    """
    pre: 0 <= deg <= 6 and 0 <= sharp <= 1 and 0 <= octave <= 9
    post: _ == 1
    """
    CNT[0] += 1
    n = MidiNote(ScaleDegree(conc(deg, 0, 6)), sharp == 1, conc(octave, 0, 9))
    s = n.to_string()
    m = MidiNote.from_string(s)
    return 1 if (m.scale_degree == n.scale_degree and m.is_sharp == n.is_sharp and m.octave == n.octave and m == n) else 0


# ------------------------------------------------------------------ tuning byte <-> cents, IEEE-754 (engine S)
def p_tune(twin=False, timeout=300, exclude=(), only=None, replay=None):
    from vf import symx
    b = z3.BitVec("b", 8)
    x = symx.SymI(z3.SignExt(24, b))
    base = []

    def body():
        y = parse_akai_tune_cents(x)                   # the real functions, on a symbolic signed byte
        r = build_akai_tune_cents(y)
        r = symx.SymI.lift(r) if isinstance(r, int) else r
        return r.e != x.e

    def describe(m):
        v = m.eval(b, model_completion=True).as_signed_long()
        return {"tuning_byte": v}

    def rep(cex):
        v = cex["tuning_byte"]
        return build_akai_tune_cents(parse_akai_tune_cents(v)) != v
    if replay is not None:
        return {"verdict": "refuted", "reproduced": rep(replay), "cex": replay}
    out = symx.run_obligation(body, base, describe, rep, twin=twin, timeout=timeout)
    # translator validation: the symbolic float semantics against CPython on all 256 concrete bytes (cheap, exhaustive)
    if not twin and out["verdict"] == "discharged":
        for v in range(-128, 128):
            if build_akai_tune_cents(parse_akai_tune_cents(v)) != v:
                out.update(verdict="harness_error", messages=[{"state": "SEMANTICS", "message": "CPython disagrees with the FP encoding at %d" % v}])
    return out


RUNS = ["smpl_extract.akai.akai_string:_char_format_convert_byte", "smpl_extract.akai.akai_string:_fast_akai_to_ascii_byte",
        "smpl_extract.midi:MidiNote.from_int_a0", "smpl_extract.midi:MidiNote.to_int_a0", "smpl_extract.midi:MidiNote.from_string",
        "smpl_extract.midi:MidiNote.to_string", "smpl_extract.akai.data_types:parse_akai_tune_cents",
        "smpl_extract.akai.data_types:build_akai_tune_cents"]

META = {
    "assumptions": ["AKAI character table transcribed independently in the harness (41 characters, codes 0x00..0x28)",
                    "tuning codec: Python float = IEEE-754 binary64, round() = round-half-even; input a signed byte (Int8sl)",
                    "str.upper()/encode/bytes()/chr() at the edges of char_ascii_to_akai / char_akai_to_ascii are C-level and trusted"],
    "trusted": ["CPython 3.12", "z3 5.1 (QF_BVFP)", "CrossHair 0.0.110", "vf.symx SymI/SymF"],
    "out_of_claim": ["note text for octaves >= 10 (the statement says 0-9)"],
}


def obligations(tier, seed):
    T = 170 if tier == "quick" else 600
    def ob(name, func, pre, sym, bound, **kw):
        return dict(name=name, module="vf.props.c18", func=func, extra_pre=pre, timeout=T, runs=RUNS, sym=sym, bound=bound, stubs=[], **kw)
    obs = [ob("C18.char/akai->ascii->akai", "h_char_akai", [], "AKAI byte", "0..255 (all)"),
           ob("C18.char/ascii->akai->ascii", "h_char_ascii", [], "ASCII byte", "0..255 (all)"),
           ob("C18.char/api", "h_char_api", [], "length 0..4 and character class of every position", "names over 6 character classes (blank, digit, A, Z, #, .) through the public converters and the 12-byte field"),
           ob("C18.note/akai", "h_note_byte", ["which == 0"], "note byte", "21..255"),
           ob("C18.note/midi", "h_note_byte", ["which == 1"], "note byte", "21..255"),
           ob("C18.note/akai/below-A0", "h_note_byte_low", ["which == 0"], "note byte", "0..20"),
           ob("C18.note/midi/below-A0", "h_note_byte_low", ["which == 1"], "note byte", "0..20"),
           ob("C18.note/field/akai", "h_note_field", ["which == 0"], "note byte", "0..255 (all) through the live AkaiMidiNote adapter"),
           ob("C18.note/field/roland", "h_note_field", ["which == 1"], "note byte", "0..255 (all) through the live RolandMidiNote adapter"),
           ob("C18.note/field/wav-smpl", "h_note_field", ["which == 2"], "note byte", "0..255 (all) through the live smpl-chunk adapter"),
           ob("C18.note/text", "h_note_text", [], "degree, sharp, octave", "7 x 2 x 10 (all)")]
    for n in ((1, 2) if tier == "quick" else (1, 2, 3)):
        obs.append(ob(f"C18.char/name/n={n}", "h_char_str", [f"n == {n}"], "every character code of a name", f"names of {n} characters over the 41 valid codes"))
    obs.append(dict(name="C18.tune", engine="P", module="vf.props.c18", func="p_tune", params={}, timeout=600, runs=RUNS,
                    sym="signed tuning byte", bound="all 256 values, IEEE-754 double semantics (QF_BVFP)", stubs=[]))
    return obs
