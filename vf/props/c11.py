"""C11 — sample streams sharing one image file handle do not disturb one another.

Two real stream stacks of a kind the tool builds are laid over ONE abstract file handle (and one shared
partition / data-area / raw-sector view).  A schedule of operations is applied; which object each operation
addresses (stream 0, stream 1, the shared parent view, the raw handle) and whether it is a seek or a read is
the *skeleton* (enumerated into obligations); offsets, sizes, sector numbers and window geometry are symbolic.
Assertion: every read of a stream returns exactly what isolated sequential reading of that stream returns
(reference = the stream's own address function and its own cursor model).
"""
import smpl_extract.util.stream as S
import smpl_extract.transcoder as T
from smpl_extract.util.stream import StreamOffset, StreamWrapper, StreamReversed
from smpl_extract.akai.sat import Segment
from smpl_extract.roland.s7xx.fat import RolandFile
from smpl_extract.alcohol.mdf import MdfStream
from smpl_extract.data_streams import DataStream, StreamEncoding, Endianess
from smpl_extract.generalized.sample import Sample, combine_stereo
from smpl_extract.generalized.wav import WavSampleAdapter
from smpl_extract.formats.wav import RiffStruct
from vf.absfile import mkfile, byte_is, indices, REAL
from vf import hist
from vf.util import fresh_class_state

CNT = [0]
LA, LR = 8192, 9216


def _shim():
    fresh_class_state(StreamOffset, StreamWrapper, StreamReversed, Segment, RolandFile, MdfStream)
    if not REAL:
        from vf.npshim import NpShim
        S.np = NpShim
        T.np = NpShim


class View:
    """a stream + its isolated-reading reference (length, address function, model cursor)"""

    def __init__(self, stream, length, addr_of, align=1):
        self.stream, self.length, self.addr_of, self.pos, self.align = stream, length, addr_of, 0, align


def build_pair(kind, g):
    """g: list of 10 symbolic geometry ints in 0..39 / sizes; returns (file, [view0, view1], parent view or None)"""
    if kind == 0:       # two AKAI sample windows in one partition
        P = g[0]
        f = mkfile((P + 24) * LA)
        part = StreamOffset(f, 24 * LA, P * LA)
        views = []
        for (a, b, woff, wsize) in ((g[1], g[2], g[5], g[6]), (g[3], g[4], g[7], g[8])):
            sl = [a, b]
            seg = Segment(part, sl)
            fst = StreamWrapper(seg, 2 * LA)
            win = StreamOffset(fst, wsize, woff)
            views.append(View(win, wsize, (lambda sl, woff: (lambda p: P * LA + sl[(woff + p) // LA] * LA + (woff + p) % LA))(sl, woff)))
        return f, views, View(part, 24 * LA, lambda p: P * LA + p)
    if kind == 4:       # two AKAI sample windows in two DIFFERENT partitions of one image (same partition-relative coordinates possible)
        f = mkfile(48 * LA)
        parts = [StreamOffset(f, 24 * LA, 0), StreamOffset(f, 24 * LA, 24 * LA)]
        views = []
        for pi, (a, b, woff, wsize) in enumerate(((g[1], g[2], g[5], g[6]), (g[3], g[4], g[7], g[8]))):
            sl = [a, b]
            win = StreamOffset(StreamWrapper(Segment(parts[pi], sl), 2 * LA), wsize, woff)
            views.append(View(win, wsize, (lambda sl, woff, pi: (lambda p: pi * 24 * LA + sl[(woff + p) // LA] * LA + (woff + p) % LA))(sl, woff, pi)))
        return f, views, View(parts[0], 24 * LA, lambda p: p)
    if kind == 1:       # two CDDA track windows directly on the bin handle
        f = mkfile(40000)
        views = []
        for (off, size) in ((g[5], g[6]), (g[7], g[8])):
            views.append(View(StreamOffset(f, size, off), size, (lambda off: (lambda p: off + p))(off)))
        return f, views, None
    if kind == 2:       # Roland: forward window and reversed window over two cluster chains in the shared data area
        D = 1000
        f = mkfile(D + 24 * LR)
        data = StreamOffset(f, 24 * LR, D)
        sl0, sl1 = [g[1], g[2]], [g[3], g[4]]
        rf0, rf1 = RolandFile(data, sl0), RolandFile(data, sl1)
        w0 = StreamOffset(rf0, g[6], g[5])
        views = [View(w0, g[6], lambda p: D + sl0[(g[5] + p) // LR] * LR + (g[5] + p) % LR)]
        n = g[8]                                           # bytes, even
        inner = StreamOffset(rf1, n, g[7])
        rev = StreamReversed(inner, n, sample_width=2)
        views.append(View(rev, n, lambda p: D + sl1[(g[7] + (n - 2 - (p // 2) * 2) + p % 2) // LR] * LR
                          + (g[7] + (n - 2 - (p // 2) * 2) + p % 2) % LR, align=2))
        return f, views, View(data, 24 * LR, lambda p: D + p)
    if kind == 3:       # two windows over one shared raw-sector (MODE1/2352) view
        f = mkfile(12 * 2352)
        m = MdfStream(f)
        views = []
        for (off, size) in ((g[5], g[6]), (g[7], g[8])):
            views.append(View(StreamOffset(m, size, off), size,
                              (lambda off: (lambda p: ((off + p) // 2048) * 2352 + 16 + (off + p) % 2048))(off)))
        return f, views, View(m, 12 * 2048, lambda p: (p // 2048) * 2352 + 16 + p % 2048)
    raise ValueError(kind)


def geometry_ok(kind, g):
    if kind == 0:
        return (g[0] <= 3 and 1 <= g[1] <= 20 and 1 <= g[2] <= 20 and 1 <= g[3] <= 20 and 1 <= g[4] <= 20 and g[1] != g[2] and g[3] != g[4]
                and g[1] != g[3] and g[1] != g[4] and g[2] != g[3] and g[2] != g[4]
                and 0 <= g[5] and 0 < g[6] and g[5] + g[6] <= 2 * LA and 0 <= g[7] and 0 < g[8] and g[7] + g[8] <= 2 * LA)
    if kind == 4:
        return (1 <= g[1] <= 20 and 1 <= g[2] <= 20 and 1 <= g[3] <= 20 and 1 <= g[4] <= 20 and g[1] != g[2] and g[3] != g[4]
                and 0 <= g[5] and 0 < g[6] and g[5] + g[6] <= 2 * LA and 0 <= g[7] and 0 < g[8] and g[7] + g[8] <= 2 * LA)
    if kind == 1:
        return 0 <= g[5] and 0 < g[6] and g[5] + g[6] <= 40000 and 0 <= g[7] and 0 < g[8] and g[7] + g[8] <= 40000
    if kind == 2:
        return (1 <= g[1] <= 20 and 1 <= g[2] <= 20 and 1 <= g[3] <= 20 and 1 <= g[4] <= 20 and g[1] != g[2] and g[3] != g[4]
                and 0 <= g[5] and 0 < g[6] and g[5] + g[6] <= 2 * LR
                and 0 <= g[7] and 0 < g[8] and g[7] + g[8] <= 2 * LR and g[7] % 2 == 0 and g[8] % 2 == 0)
    if kind == 3:
        return 0 <= g[5] and 0 < g[6] and g[5] + g[6] <= 12 * 2048 and 0 <= g[7] and 0 < g[8] and g[7] + g[8] <= 12 * 2048
    return False


def h_sched(kind: int, g0: int, g1: int, g2: int, g3: int, g4: int, g5: int, g6: int, g7: int, g8: int,
            t0: int, o0: int, a0: int, t1: int, o1: int, a1: int, t2: int, o2: int, a2: int, t3: int, o3: int, a3: int,
            nops: int, k: int) -> int:
    """
    pre: 0 <= kind <= 4 and 2 <= nops <= 4
    pre: 0 <= g0 <= 40000 and 0 <= g1 <= 40000 and 0 <= g2 <= 40000 and 0 <= g3 <= 40000 and 0 <= g4 <= 40000
    pre: 0 <= g5 <= 40000 and 0 <= g6 <= 40000 and 0 <= g7 <= 40000 and 0 <= g8 <= 40000
    pre: 0 <= t0 <= 3 and 0 <= t1 <= 3 and 0 <= t2 <= 3 and 0 <= t3 <= 3
    pre: 0 <= o0 <= 1 and 0 <= o1 <= 1 and 0 <= o2 <= 1 and 0 <= o3 <= 1
    pre: 0 <= a0 <= 20000 and 0 <= a1 <= 20000 and 0 <= a2 <= 20000 and 0 <= a3 <= 20000
    post: _ == 1
    """
    CNT[0] += 1
    _shim()
    kind, nops = int(kind), int(nops)
    g = [g0, g1, g2, g3, g4, g5, g6, g7, g8]
    if not geometry_ok(kind, g):
        return 1
    f, views, parent = build_pair(kind, g)
    ops = [(int(t0), int(o0), a0), (int(t1), int(o1), a1), (int(t2), int(o2), a2), (int(t3), int(o3), a3)][:nops]
    nlast = len(ops) - 1
    for oi, (t, o, a) in enumerate(ops):
        last = oi == nlast            # content is compared on the final operation (every stream/op is final in some skeleton)
        if t <= 1:
            v = views[t]
            if v.align == 2 and a % 2 != 0:
                return 1                               # reversed view: only sample-aligned positions/sizes are legal
            kindop = hist.K_SEEK_SET if o == 0 else hist.K_READ
            if o == 1 and a > (2100 if kind == 3 else 4200):
                return 1                               # reads up to one transcoder block (+); seeks anywhere
            np_ = hist.step(v.stream, v.length, v.addr_of, v.pos, kindop, a, k, check_bytes=last)
            if np_ < 0:
                return 0
            v.pos = np_
        elif t == 2:
            if parent is None:
                return 1
            # "listing" traffic through the shared parent view: parsers address it absolutely (seek, then read)
            p0 = a if a < parent.length else parent.length
            if parent.stream.seek(a, 0) != p0:
                return 0
            if o == 1:
                n = a // 4
                r = parent.stream.read(n)
                m = parent.length - p0
                if n < m:
                    m = n
                if len(r) != m:
                    return 0
                if last or REAL:
                    for kk in indices(k, m):
                        if not byte_is(r, kk, parent.addr_of(p0 + kk)):
                            return 0
        else:
            # traffic on the raw OS handle itself
            if o == 0:
                f.seek(a, 0)
            else:
                f.read(a if a < 5000 else 5000)
    return 1


def havoc(top, f, hv):
    """put every cursor BELOW the top view (and the raw handle) into an arbitrary valid state: this is what any
    interleaving of operations on sibling streams, on the shared parent views and on the handle can leave behind."""
    layer = top.substream
    j = 0
    while layer is not f and layer is not None:
        if hasattr(layer, "end_of_file"):
            p = hv[j]
            if p > layer.end_of_file:
                p = layer.end_of_file
            layer.position = p
            layer.true_size = hv[j + 1]
            j += 2
        layer = getattr(layer, "substream", None)
    f.seek(hv[j], 0)


def h_step(kind: int, which: int, g0: int, g1: int, g2: int, g3: int, g4: int, g5: int, g6: int, g7: int, g8: int,
           h0: int, h1: int, h2: int, h3: int, h4: int, h5: int, h6: int, h7: int, h8: int,
           p: int, op: int, a: int, k: int) -> int:
    """
    pre: 0 <= kind <= 4 and 0 <= which <= 1 and 0 <= op <= 1
    pre: 0 <= g0 <= 40000 and 0 <= g1 <= 40000 and 0 <= g2 <= 40000 and 0 <= g3 <= 40000 and 0 <= g4 <= 40000
    pre: 0 <= g5 <= 40000 and 0 <= g6 <= 40000 and 0 <= g7 <= 40000 and 0 <= g8 <= 40000
    pre: 0 <= h0 <= 300000 and 0 <= h1 <= 300000 and 0 <= h2 <= 300000 and 0 <= h3 <= 300000 and 0 <= h4 <= 300000
    pre: 0 <= h5 <= 300000 and 0 <= h6 <= 300000 and 0 <= h7 <= 300000 and 0 <= h8 <= 300000
    pre: 0 <= p <= 40000 and -40000 <= a <= 40000 and (op == 0 or a >= 0)
    post: _ == 1
    """
    CNT[0] += 1
    _shim()
    kind, which, op = int(kind), int(which), int(op)
    g = [g0, g1, g2, g3, g4, g5, g6, g7, g8]
    if not geometry_ok(kind, g):
        return 1
    f, views, parent = build_pair(kind, g)
    v = views[which]
    if p > v.length:
        return 1
    if v.align == 2 and (p % 2 != 0 or a % 2 != 0):
        return 1
    # inductive hypothesis: the view's own logical cursor is p; everything below it is arbitrary
    v.stream.position = p
    v.pos = p
    hv = [h0, h1, h2, h3, h4, h5, h6, h7, h8]
    if v.align == 2:
        hv[1] = hv[1] - hv[1] % 2            # a reversed view's inner window only ever sees sample-aligned sizes
    havoc(v.stream, f, hv)
    np_ = hist.step(v.stream, v.length, v.addr_of, v.pos, hist.K_SEEK_SET if op == 0 else hist.K_READ, a, k)
    if np_ < 0:
        return 0
    if v.stream.tell() != np_:
        return 0
    # ... and the sibling's own cursor is untouched (so the hypothesis is re-established for it)
    o = views[1 - which]
    if o.stream.position != 0:
        return 0
    return 1


def h_stereo(P: int, s0: int, s1: int, s2: int, s3: int, w0: int, w1: int, n0: int, n1: int, k: int) -> int:
    """
    pre: 0 <= P <= 3 and 1 <= s0 <= 20 and 1 <= s1 <= 20 and 1 <= s2 <= 20 and 1 <= s3 <= 20
    pre: s0 != s1 and s2 != s3 and s0 != s2 and s0 != s3 and s1 != s2 and s1 != s3
    pre: 0 <= w0 and 0 <= w1 and 0 <= n0 <= 4200 and 0 <= n1 <= 4200 and w0 + 2 * n0 <= 16384 and w1 + 2 * n1 <= 16384
    post: _ == 1
    """
    CNT[0] += 1
    _shim()
    f = mkfile((P + 24) * LA)
    part = StreamOffset(f, 24 * LA, P * LA)
    enc = StreamEncoding(endianess=Endianess.LITTLE, sample_width=2, num_interleaved_channels=1)
    smp = []
    geo = ((s0, s1, w0, n0), (s2, s3, w1, n1))
    for (a, b, woff, n) in geo:
        win = StreamOffset(StreamWrapper(Segment(part, [a, b]), 2 * LA), 2 * n, woff)
        smp.append(Sample(name="x", num_channels=1, data_streams=[DataStream(win, enc)]))
    st = combine_stereo(smp[0], smp[1], "x")
    cont = WavSampleAdapter(RiffStruct)._encode(st, {}, "")
    gen = cont["data"]["chunks"][-1]["data"]
    out, total = [], 0
    for blk in gen:
        out.append((total, blk))
        total += len(blk)
        if len(out) > 6:
            return 0
    lo = n0 if n0 < n1 else n1
    if total < 4 * lo:
        return 0
    ks = range(4 * lo) if REAL else ([k] if 0 <= k < 4 * lo else [])
    for kk in ks:
        fr, c, b = kk // 4, (kk // 2) % 2, kk % 2
        (a_, b_, woff, n) = geo[c]
        i = woff + 2 * fr + b
        want = P * LA + [a_, b_][i // LA] * LA + i % LA
        for (b0, blk) in out:
            if b0 <= kk < b0 + len(blk):
                if not byte_is(blk, kk - b0, want):
                    return 0
    return 1


RUNS = ["smpl_extract.util.stream:StreamWrapper.read", "smpl_extract.util.stream:StreamWrapper.seek", "smpl_extract.util.stream:StreamOffset",
        "smpl_extract.util.stream:StreamReversed", "smpl_extract.util.sector:SectorStream._read", "smpl_extract.util.sector:SectorStream._read_sector",
        "smpl_extract.util.fat:FileStream", "smpl_extract.akai.sat:Segment", "smpl_extract.roland.s7xx.fat:RolandFile",
        "smpl_extract.alcohol.mdf:MdfStream", "smpl_extract.transcoder:decode_frame", "smpl_extract.transcoder:PipelineTranscoder.__next__",
        "smpl_extract.generalized.sample:combine_stereo"]

META = {
    "assumptions": ["one OS file handle = AbsFile stub with a single cursor; every view shares it",
                    "'listing of other directories' is modelled as seeks/reads on the shared parent view and on the raw handle",
                    "operations are seek(SET) and read; tell never touches the handle",
                    "C11.step: whatever sibling streams, parent views or the handle did before is over-approximated by an arbitrary value of every "
                    "cursor below the view under test (position and true_size of each layer, handle position); only the view's own position is its own"],
    "trusted": ["CPython 3.12", "z3 5.1", "CrossHair 0.0.110", "AbsFile/Spans", "NpShim (reversed view, stereo interleave)"],
    "out_of_claim": ["threads (the tool is single-threaded)", "operations other than seek/read/tell"],
}

KINDS = {0: "akai+akai", 1: "cdda+cdda", 2: "roland+roland-reversed", 3: "mdf-window+mdf-window", 4: "akai-partA+akai-partB"}


def obligations(tier, seed):
    q = tier == "quick"
    T_ = 170 if q else 1200
    obs = []
    # (a) inductive step: ONE operation of a stream from an arbitrary state of every shared cursor.  By induction over the
    #     schedule this covers every interleaving of any length with any number of sibling streams / listing traffic.
    for kind in range(5):
        for which in (0, 1):
            for op in (0, 1):
                obs.append(dict(name=f"C11.step/{KINDS[kind]}/stream{which}/{'read' if op else 'seek'}", module="vf.props.c11", func="h_step",
                                extra_pre=[f"kind == {kind}", f"which == {which}", f"op == {op}"] + (["a <= 4200"] if op == 1 else []), timeout=T_, runs=RUNS,
                                sym="window geometry, sector/cluster numbers, the view's own cursor, the operation's argument, byte index, and the "
                                    "position/true_size of EVERY lower layer plus the raw handle's cursor (arbitrary pre-state)",
                                bound="one operation (reads <= 4200 bytes, seeks anywhere) from an arbitrary valid pre-state (inductive step => schedules of any length); windows <= 2 sectors/clusters, <= 12 raw sectors, <= 40000 bytes",
                                stubs=["AbsFile/Spans"] + (["NpShim"] if kind == 2 else [])))
    # (b) concrete skeletons as end-to-end cross-check of the induction argument
    for kind in range(5):
        others = (1, 2, 3) if kind != 1 else (1, 3)
        if q:
            sk = [[(0, 0), (1, 1), (0, 1)], [(0, 1), (1, 0), (0, 1)]]
            if kind == 4:
                sk = [[(0, 1), (1, 1)], [(0, 0), (1, 1), (0, 1)], [(1, 1), (0, 1)]]
            elif kind == 1:
                sk += [[(0, 1), (1, 1), (0, 1)], [(1, 1), (0, 1), (1, 1)], [(0, 1), (3, 1), (0, 1)]]
            else:
                sk += [[(0, 1), (2, 0), (0, 1)], [(0, 0), (2, 1), (0, 1)]]
        else:
            sk = [[(0, a), (y, b), (0, 1)] for a in (0, 1) for y in others for b in (0, 1)]
            sk += [[(1, a), (y, b), (1, 1)] for a in (0, 1) for y in (0, 2, 3) if not (kind == 1 and y == 2) for b in (0, 1)]
            if kind == 1:
                sk += [[(0, a), (y, b), (z, c), (0, 1)] for a in (0, 1) for y in others for b in (0, 1) for z in (0,) + others for c in (0, 1)]
        for ops in sk:
            nm = "".join("%s%s" % ("01PH"[t], "sr"[o]) for (t, o) in ops)
            pre = [f"kind == {kind}", f"nops == {len(ops)}"] + [f"t{i} == {t} and o{i} == {o}" for i, (t, o) in enumerate(ops)]
            for j in range(len(ops), 4):
                pre.append(f"t{j} == 0 and o{j} == 0 and a{j} == 0")
            if kind == 4:
                # the two files sit at the SAME partition-relative sectors (concrete), everything else symbolic
                obs.append(dict(name=f"C11.sched/{KINDS[kind]}/same-sectors/{nm}", module="vf.props.c11", func="h_sched",
                                extra_pre=pre + ["g1 == 3 and g2 == 5 and g3 == 3 and g4 == 5"], timeout=T_, runs=RUNS,
                                sym="window geometry, every offset and size, byte index", bound=f"schedule {nm}; both files on partition-relative sectors 3,5",
                                stubs=["AbsFile/Spans"]))
            obs.append(dict(name=f"C11.sched/{KINDS[kind]}/{nm}", module="vf.props.c11", func="h_sched", extra_pre=pre, timeout=T_, runs=RUNS,
                            sym="window geometry, sector/cluster numbers, every offset and size, byte index",
                            bound=f"{len(ops)}-operation schedule {nm} (0/1 = streams, P = shared parent view, H = raw handle; s = seek, r = read)",
                            stubs=["AbsFile/Spans"] + (["NpShim"] if kind == 2 else [])))
    # (c) the transcoder's own schedule: alternating block reads of L and R
    obs.append(dict(name="C11.stereo/akai", module="vf.props.c11", func="h_stereo", extra_pre=["n0 <= 1100 and n1 <= 1100"] if q else ["n0 <= 2100 and n1 <= 2100"],
                    timeout=T_, runs=RUNS, sym="partition start, both sector chains, both windows, byte index",
                    bound=f"two AKAI samples <= {1100 if q else 2100} frames each, alternating block reads by the real PipelineTranscoder",
                    stubs=["AbsFile/Spans", "NpShim"]))
    # whole-image histories on ONE image object (AKAI, S-770 incl. two samples inside one FAT chain, CDDA): shared with C16.hist
    from vf.props import c16 as _c16
    for o in _c16.hist_obligations(tier):
        obs.append(dict(o, name=o["name"].replace("C16.hist/", "C11.hist/")))
    return obs
