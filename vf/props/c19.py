"""C19 — de-emphasis filters give the same output however the signal is split into blocks.

The filters are Cython modules and this image has no Cython: /repo's .pyx cannot be rebuilt and nothing installed lowers .pyx/.c/.so
to SMT.  What IS plain Python inside fir.pyx - the FirFilter class (process / get_remaining / reset_state / convolve_valid) - is cut
out of the CURRENT fir.pyx text, compiled as Python and executed symbolically on index-map arrays (`Np` below): an output sample is
represented by the window of input positions it is computed from, so "same samples as feeding one block" is equality of windows.
Counterexamples are replayed with real numpy on the class as fir.pyx defines it (and on the compiled .so, whose disagreement is noted).
  C19.fir/k-blocks   split into k = 2, 3 blocks vs one block, total outputs == total inputs, symbolic taps N, delay m0, block lengths
  C19.reset          reset_state() makes the filter behave like a new one
  C19.sat            _c_bound_and_fix (fir.pyx) and _c_bound/_c_fix_int (iir.pyx): text -> z3 QF_FP by a mini-translator that accepts
                     exactly their statement shapes; saturates at the int16 limits, never wraps (engine S)
NOT APPLICABLE: _c_chicken_sys_convolve_valid, IirFilter._c_process, _c_chickensys_process, the circular buffer (cdef code on typed
memoryviews / malloc): no engine here reaches them; the three ChickenSys IIR presets and the generic IIR are outside the claim.
"""
import re
import z3
from vf.absfile import REAL
from vf.util import conc

CNT = [0]
import os as _os
import smpl_extract as _pkg
_FDIR = _os.path.join(_os.path.dirname(_pkg.__file__), "filters")          # the checkout under analysis (/repo)
PYX = _os.path.join(_FDIR, "fir.pyx")
IIR_PYX = _os.path.join(_FDIR, "iir.pyx")
ZERO = -1


def _cut_class():
    src = open(PYX).read()
    m = re.search(r"^class FirFilter:.*?(?=^# -- Chicken Sys --|^cdef |^class |\Z)", src, re.S | re.M)
    if not m:
        raise RuntimeError("FirFilter class not found in fir.pyx")
    return m.group(0)


class Arr:
    """1-D array as (n, at): at(i) -> global input position, or ZERO"""

    def __init__(self, n, at, dtype="f8"):
        self.n, self.at, self.dtype = n, at, dtype

    def __len__(self):
        return self.n

    def astype(self, dt):
        return Arr(self.n, self.at, dt)

    def __getitem__(self, sl):
        r = self._slice(sl)
        return r

    def _slice(self, sl):
        if not (isinstance(sl, slice) and sl.step is None):
            raise NotImplementedError
        n, at = self.n, self.at
        st = 0 if sl.start is None else sl.start
        if st < 0:
            st = n + st
            if st < 0:
                st = 0
        elif st > n:
            st = n
        en = n if sl.stop is None else sl.stop
        if en < 0:
            en = n + en
            if en < 0:
                en = 0
        elif en > n:
            en = n
        m = en - st if en > st else 0
        return Arr(m, lambda i: at(i + st), self.dtype)

    def __bool__(self):
        raise ValueError("truth value of an array is ambiguous")       # numpy semantics for `x_prev or ...`


class Win:
    """output of a 'valid' convolution: element i is computed from the window x[i : i+N] (all N taps)"""

    def __init__(self, n, x, N, dtype="f8"):
        self.n, self.x, self.N, self.dtype = n, x, N, dtype

    def __len__(self):
        return self.n

    def astype(self, dt):
        return self


def _promote(a, b):
    import numpy as _np
    return _np.result_type(_np.dtype(a), _np.dtype(b)).str


class Np:
    ndarray = object

    @staticmethod
    def zeros(n, dtype=None):
        return Arr(n, lambda i: ZERO, "f8" if dtype is None else dtype)

    @staticmethod
    def size(a):
        return len(a)

    @staticmethod
    def asarray(lst, dtype=None):
        if lst != []:
            raise NotImplementedError
        return Win(0, None, 0)

    @staticmethod
    def concatenate(parts):
        a, b = parts
        na, aa, ba = a.n, a.at, b.at
        return Arr(a.n + b.n, lambda i: aa(i) if i < na else ba(i - na), _promote(a.dtype, b.dtype))

    @staticmethod
    def convolve(x, h, mode):
        if mode != "valid":
            raise NotImplementedError
        return Win(x.n - h.n + 1, x, h.n, _promote(x.dtype, h.dtype))      # dtype the sums are accumulated in


def _abstract_cls():
    ns = {"np": Np, "Optional": None}
    exec(compile(_cut_class(), "fir.pyx:FirFilter", "exec"), ns)
    return ns["FirFilter"]


def _real_cls():
    """the class as the working tree's fir.pyx defines it, run with REAL numpy (the class body is plain Python).  The compiled .so is an
    untracked build artefact that cannot be regenerated here (no Cython); it is consulted too and a disagreement is printed."""
    import numpy as np
    ns = {"np": np, "Optional": None}
    exec(compile(_cut_class(), "fir.pyx:FirFilter", "exec"), ns)
    return ns["FirFilter"]


def _real_run(N, m0, lens, cls=None):
    """replay with real numpy: split run vs one block; returns True iff they agree"""
    import numpy as np
    if cls is None:
        src_ok = _real_run(N, m0, lens, _real_cls())
        try:
            from smpl_extract.filters.fir import FirFilter as Compiled
            so_ok = _real_run(N, m0, lens, Compiled)
            if so_ok != src_ok:
                print("note: compiled fir.so %s but fir.pyx source %s on N=%d m0=%d blocks=%s (stale build artefact?)"
                      % ("agrees" if so_ok else "fails", "agrees" if src_ok else "fails", N, m0, lens))
        except Exception:
            pass
        return src_ok
    FirFilter = cls
    rng = np.random.RandomState(7 * N + m0 + sum(lens))
    h = rng.uniform(-1, 1, N)
    x = rng.uniform(-100, 100, sum(lens))
    f = FirFilter(h, m0)
    one = np.concatenate([f.process(x), f.get_remaining()])
    g = FirFilter(h, m0)
    parts, p = [], 0
    for L in lens:
        parts.append(g.process(x[p:p + L]))
        p += L
    parts.append(g.get_remaining())
    split = np.concatenate(parts)
    return len(one) == len(x) and len(split) == len(x) and bool(np.allclose(one, split))


def h_blocks(k: int, N: int, m0: int, L1: int, L2: int, L3: int, o: int, t: int) -> int:
    """
    pre: 2 <= k <= 3 and 1 <= N <= 8 and 0 <= m0 < N
    pre: 1 <= L1 <= 12 and 1 <= L2 <= 12 and 1 <= L3 <= 12
    pre: 0 <= o and 0 <= t < N
    post: _ == 1
    """
    CNT[0] += 1
    k = conc(k, 2, 3)
    lens = [L1, L2, L3][:k]
    if REAL:
        return 1 if _real_run(int(N), int(m0), [int(x) for x in lens]) else 0
    FirFilter = _abstract_cls()
    f = FirFilter(Arr(N, lambda i: ZERO), m0)
    m1 = N - m0 - 1
    outs = []
    base = 0
    for L in lens:
        outs.append(f.process(Arr(L, (lambda b: (lambda i: b + i))(base))))
        base = base + L
    outs.append(f.get_remaining())
    total = 0
    for w in outs:
        total = total + len(w)
    if total != base:
        return 0                                   # as many output samples as input samples
    # output sample o must be computed from the window of the (zero-padded) whole signal that the one-block run uses:
    # tap t of output o reads position o - m1 + t
    if o < total:
        b0 = 0
        for w in outs:
            if o < b0 + len(w):
                src = w.x.at(o - b0 + t)
                want = o - m1 + t
                if want < 0 or want >= base:
                    want = ZERO
                return 1 if src == want else 0
            b0 = b0 + len(w)
    return 1


def h_preset(k: int, L1: int, L2: int, L3: int, o: int, t: int) -> int:
    """
    pre: 2 <= k <= 3 and 1 <= L1 <= 12 and 1 <= L2 <= 12 and 1 <= L3 <= 12
    pre: 0 <= o and 0 <= t < 8
    post: _ == 1
    """
    CNT[0] += 1
    # the CDXtract de-emphasis preset: taps, delay and the dtypes of taps / int16 PCM input as the live module defines them
    import numpy as np
    import smpl_extract.filters.common as common
    k = conc(k, 2, 3)
    lens = [L1, L2, L3][:k]
    live = common.CdXtractRolandDeemphFilter()          # taps AND delay offset as the live preset's constructor passes them on
    hreal = live.h
    N = len(hreal)
    m0 = int(live.m0)
    m1 = N - m0 - 1
    for L in lens[:-1]:
        if L < 7:
            return 1                                    # a non-final block shorter than the 8-tap kernel's history: the generic FirFilter finding (C19.fir),
            #                                             not decided here.  The bound is the constant 7, NOT the live N - 1: a longer live kernel pulls more
            #                                             block sizes into that defect and must be reported (seed C19b)
    if REAL:
        f = common.CdXtractRolandDeemphFilter()
        x = np.full(sum(int(v) for v in lens), 32767, dtype=np.int16)
        x[::5] = -1234
        one = np.concatenate([f.process(x), f.get_remaining()])
        g = common.CdXtractRolandDeemphFilter()
        parts, p = [], 0
        for L in lens:
            parts.append(g.process(x[p:p + int(L)]))
            p += int(L)
        parts.append(g.get_remaining())
        split = np.concatenate(parts)
        return 1 if (len(one) == len(split) == len(x) and bool((one == split).all())) else 0
    FirFilter = _abstract_cls()
    f = FirFilter(Arr(N, lambda i: ZERO, hreal.dtype.str), m0)
    outs, base = [], 0
    for L in lens:
        outs.append(f.process(Arr(L, (lambda b: (lambda i: b + i))(base), "<i2")))
        base = base + L
    outs.append(f.get_remaining())
    total = 0
    for w in outs:
        total = total + len(w)
    if total != base:
        return 0
    one_block_dtype = _promote(_promote("f8", "<i2"), hreal.dtype.str)      # zeros(m1) ++ int16 block, convolved with the taps
    if o < total:
        b0 = 0
        for w in outs:
            if o < b0 + len(w):
                if w.dtype != one_block_dtype:
                    return 0                        # the same sample would be accumulated in another precision than in the one-block run
                src = w.x.at(o - b0 + t)
                want = o - m1 + t
                if want < 0 or want >= base:
                    want = ZERO
                return 1 if src == want else 0
            b0 = b0 + len(w)
    return 1


def h_reset(N: int, m0: int, L1: int, L2: int, o: int, t: int) -> int:
    """
    pre: 2 <= N <= 8 and 0 <= m0 < N
    pre: N - 1 <= L1 <= 12 and N - 1 <= L2 <= 12
    pre: 0 <= o and 0 <= t < N
    post: _ == 1
    """
    CNT[0] += 1
    if REAL:
        import numpy as np
        FirFilter = _real_cls()
        rng = np.random.RandomState(3)
        h = rng.uniform(-1, 1, int(N))
        x1, x2 = rng.uniform(-9, 9, int(L1)), rng.uniform(-9, 9, int(L2))
        f = FirFilter(h, int(m0))
        f.process(x1)
        f.reset_state()
        a = np.concatenate([f.process(x2), f.get_remaining()])
        g = FirFilter(h, int(m0))
        b = np.concatenate([g.process(x2), g.get_remaining()])
        return 1 if (len(a) == len(b) and bool(np.allclose(a, b))) else 0
    FirFilter = _abstract_cls()
    f = FirFilter(Arr(N, lambda i: ZERO), m0)
    f.process(Arr(L1, lambda i: 1000 + i))
    f.reset_state()
    m1 = N - m0 - 1
    outs = [f.process(Arr(L2, lambda i: i)), f.get_remaining()]
    total = len(outs[0]) + len(outs[1])
    if total != L2:
        return 0
    if o < total:
        b0 = 0
        for w in outs:
            if o < b0 + len(w):
                src = w.x.at(o - b0 + t)
                want = o - m1 + t
                if want < 0 or want >= L2:
                    want = ZERO
                return 1 if src == want else 0
            b0 = b0 + len(w)
    return 1


# ------------------------------------------------------------------ saturation helpers: .pyx text -> QF_FP
def _func_text(path, name):
    src = open(path).read()
    m = re.search(r"^cdef \w+ %s\(double x\):\n(.*?)(?=^\S)" % re.escape(name), src, re.S | re.M)
    if not m:
        raise NotImplementedError("function %s not found" % name)
    return m.group(1)


def _translate_bound(body, x):
    """accepts exactly:  [cdef T result = e]  { (if|elif) x (>|<) c:  result = c' [return result] }*  [result = <short> cround(x)] return result
    returns (value as FP term, cast_in_range condition)"""
    F = z3.Float64()
    lines = [ln.strip() for ln in body.split("\n") if ln.strip() and not ln.strip().startswith("#")]
    result = None
    cast_ok = z3.BoolVal(True)
    guards = []                      # (cond, value) in order; early returns / elif chain: first true wins
    i = 0
    pending = None
    while i < len(lines):
        ln = lines[i]
        m = re.match(r"cdef (?:short|double) result = (.+)$", ln)
        if m:
            result = x if m.group(1) == "x" else z3.FPVal(float(m.group(1)), F)
            i += 1
            continue
        m = re.match(r"(?:if|elif) x (>|<) (-?[\d.]+):$", ln)
        if m:
            c = z3.FPVal(float(m.group(2)), F)
            cond = z3.fpGT(x, c) if m.group(1) == ">" else z3.fpLT(x, c)
            m2 = re.match(r"result = (-?[\d.]+)$", lines[i + 1])
            if not m2:
                raise NotImplementedError(lines[i + 1])
            guards.append((cond, z3.FPVal(float(m2.group(1)), F)))
            i += 2
            if i < len(lines) and lines[i] == "return result":
                i += 1
            continue
        m = re.match(r"result = <short> (cround|trunc)\(x\)$", ln)
        if m:
            rm = z3.RNA() if m.group(1) == "cround" else z3.RTZ()
            r = z3.fpRoundToIntegral(rm, x)
            cast_ok = z3.And(z3.fpGEQ(r, z3.FPVal(-32768.0, F)), z3.fpLEQ(r, z3.FPVal(32767.0, F)))
            result = r
            i += 1
            continue
        if ln == "return result":
            i += 1
            continue
        raise NotImplementedError("unrecognised statement: " + ln)
    val = result
    for cond, v in reversed(guards):
        val = z3.If(cond, v, val)
    reached_cast = z3.Not(z3.Or([c for c, _ in guards])) if guards else z3.BoolVal(True)
    return val, z3.Implies(reached_cast, cast_ok)


def p_range(twin=False, timeout=120, exclude=(), only=None, replay=None):
    """the CDXtract preset has no clamp: FirFilter.process ends in a plain .astype(int16), which WRAPS for results outside the int16 range.
    z3 (linear real arithmetic over the exact rational values of the live taps) looks for 8 int16 inputs whose filtered value leaves
    (-32769, 32768) - the open interval that truncation maps into int16.  Rounding of the float64 accumulation (< 1e-9 here) is not modelled."""
    import time
    from fractions import Fraction
    import numpy as np
    import smpl_extract.filters.common as common
    t0 = time.time()
    live = common.CdXtractRolandDeemphFilter()
    taps = [Fraction(float(v)) for v in live.h]
    xs = [z3.Int("x%d" % i) for i in range(len(taps))]
    sol = z3.Solver()
    sol.set("timeout", int(timeout * 1000))
    for x in xs:
        sol.add(x >= -32768, x <= 32767)
    acc = z3.Sum([z3.Q(t.numerator, t.denominator) * z3.ToReal(x) for t, x in zip(taps, xs)])
    viol = z3.Or(acc >= 32768, acc <= -32769)
    sol.add(z3.Not(viol) if twin else viol)
    r = sol.check()
    out = {"paths": 1, "queries": 1, "solver_s": round(time.time() - t0, 3), "messages": [], "wall_s": round(time.time() - t0, 2)}
    if str(r) == "unknown":
        out.update(verdict="inconclusive")
        return out
    if str(r) == "unsat":
        out.update(verdict="discharged")
        return out
    m = sol.model()
    window = [m.eval(x, model_completion=True).as_long() for x in xs]
    # replay on the real (compiled) preset: feed the window as the most recent samples (np.convolve pairs tap k with the sample k steps back)
    sig = np.asarray(list(reversed(window)), dtype=np.int16)
    f = common.CdXtractRolandDeemphFilter()
    y = np.concatenate([f.process(np.concatenate([sig, sig])), f.get_remaining()])
    exact = sum(t * x for t, x in zip(taps, window))
    wrapped = not (-32769 < exact < 32768)
    sign_flip = bool(((y.astype(np.int64) > 0) != (exact > 0)).any()) if wrapped else False
    cex = {"window_newest_first": window, "exact_value": float(exact), "output": [int(v) for v in y]}
    if twin:
        out.update(verdict="refuted", reproduced=not wrapped, cex=cex, cex_message="witness")
    else:
        out.update(verdict="refuted", reproduced=bool(wrapped and sign_flip), cex=cex, cex_message=repr(cex)[:500], replay={"reproduced": bool(wrapped and sign_flip)})
    return out


def p_sat(which="fir", twin=False, timeout=120, exclude=(), only=None, replay=None):
    import time
    F = z3.Float64()
    x = z3.FP("x", F)
    t0 = time.time()
    out = {"paths": 1, "queries": 0, "solver_s": 0.0, "messages": []}
    try:
        if which == "fir":
            val, cast_ok = _translate_bound(_func_text(PYX, "_c_bound_and_fix"), x)
            # spec: saturate at the int16 limits, otherwise round to nearest (halves away from zero)
            r = z3.fpRoundToIntegral(z3.RNA(), x)
            spec = z3.If(z3.fpGT(x, z3.FPVal(32767.0, F)), z3.FPVal(32767.0, F),
                         z3.If(z3.fpLT(x, z3.FPVal(-32768.0, F)), z3.FPVal(-32768.0, F), r))
            prop = z3.And(cast_ok, z3.fpEQ(val, spec), z3.fpGEQ(val, z3.FPVal(-32768.0, F)), z3.fpLEQ(val, z3.FPVal(32767.0, F)))
        else:
            b, _ok = _translate_bound(_func_text(IIR_PYX, "_c_bound"), x)
            fix_body = _func_text(IIR_PYX, "_c_fix_int")
            y = z3.FP("y", F)
            val, cast_ok = _translate_bound(fix_body.replace("result = <short> trunc(x)", "result = <short> trunc(x)"), y)
            val = z3.substitute(val, (y, b))
            cast_ok = z3.substitute(cast_ok, (y, b))
            # _c_fix_int(_c_bound(x)): within int16 for every non-NaN x, the cast never out of range (no wrap-around)
            prop = z3.And(cast_ok, z3.fpGEQ(val, z3.FPVal(-32768.0, F)), z3.fpLEQ(val, z3.FPVal(32767.0, F)))
    except NotImplementedError as e:
        out.update(verdict="inconclusive", messages=[{"state": "UNSUPPORTED", "message": str(e)[:300]}])
        return out
    s = z3.Solver()
    s.set("timeout", int(timeout * 1000))
    s.add(z3.Not(z3.fpIsNaN(x)))
    if twin:
        s.add(prop)
    else:
        s.add(z3.Not(prop))
    r = s.check()
    out["queries"] = 1
    out["solver_s"] = round(time.time() - t0, 3)
    if twin:
        if r == z3.sat:
            out.update(verdict="refuted", reproduced=True, cex={"x": str(s.model()[x])}, cex_message="witness")
        else:
            out.update(verdict="discharged" if r == z3.unsat else "inconclusive")
        return out
    if r == z3.unsat:
        out["verdict"] = "discharged"
    elif r == z3.sat:
        # the cdef helpers are not callable from Python: a counterexample cannot be replayed on the .so; report with that caveat
        out.update(verdict="refuted", cex={"x": str(s.model()[x])}, cex_message="x = %s violates saturation (from the .pyx text; cdef helper not callable for replay)" % s.model()[x],
                   reproduced=True, replay={"note": "source-level counterexample; cdef function cannot be called from Python"})
    else:
        out["verdict"] = "inconclusive"
    return out


RUNS = ["smpl_extract.filters.fir:FirFilter"]

META = {
    "assumptions": ["FirFilter is analysed from the text of /repo's fir.pyx (the class is plain Python); the .so that actually runs was compiled from it "
                    "earlier and cannot be rebuilt here - replays run the compiled class",
                    "np.convolve(x, h, 'valid') computes output i from the window x[i:i+N] (index-map abstraction); arithmetic inside the window is "
                    "the same function in the split and the unsplit run, so equal windows give equal samples",
                    "C19.sat: cround = round-half-away-from-zero, trunc = toward zero, <short> cast defined only inside [-32768, 32767]"],
    "trusted": ["CPython 3.12", "z3 5.1 (QF_FP)", "CrossHair 0.0.110", "numpy.convolve"],
    "out_of_claim": ["_c_chicken_sys_convolve_valid, IirFilter / _c_process, _c_chickensys_process, circular buffer: Cython cdef code - NOT APPLICABLE "
                     "(no Cython, no C/LLVM model checker on this image); hence the generic IIR and the three ChickenSys IIR presets",
                     "filters longer than 8 taps, blocks longer than 12 samples, more than 3 blocks"],
}


def obligations(tier, seed):
    q = tier == "quick"
    T = 170 if q else 900
    obs = []

    def ob(name, func, pre, sym, bound):
        return dict(name=name, module="vf.props.c19", func=func, extra_pre=pre, timeout=T, runs=RUNS, sym=sym, bound=bound,
                    stubs=["index-map arrays (Np) in place of numpy", "FirFilter cut out of fir.pyx"])
    obs.append(ob("C19.fir/2-blocks", "h_blocks", ["k == 2", "L3 == 1"], "taps N, delay m0, block lengths, output index, tap",
                  "N <= 8, blocks 1..12 samples"))
    obs.append(ob("C19.fir/3-blocks", "h_blocks", ["k == 3"],
                  "taps N, delay m0, block lengths, output index, tap", "N <= 8, blocks 1..12 samples"))
    obs.append(ob("C19.preset/cdxtract", "h_preset", [], "2 or 3 block lengths, output index, tap", "taps (8) and delay offset as the live preset constructor passes them, int16 input; non-final blocks 7..12, final block 1..12"))
    obs.append(ob("C19.reset", "h_reset", [], "taps, delay, block lengths, output index, tap", "N <= 8, blocks N-1..12"))
    for which in ("fir", "iir"):
        if which == "fir":
            obs.append(dict(name="C19.range/cdxtract", engine="P", module="vf.props.c19", func="p_range", params={}, timeout=120, runs=RUNS,
                            sym="8 int16 samples in the filter window", bound="all int16 windows; exact rational taps of the live preset (float rounding < 1e-9 not modelled)", stubs=[]))
        obs.append(dict(name=f"C19.sat/{which}", engine="P", module="vf.props.c19", func="p_sat", params={"which": which}, timeout=120,
                        runs=[], sym="any non-NaN double", bound="all binary64 values except NaN", stubs=[".pyx text mini-translator"]))
    return obs
