"""C16 — results depend only on the image bytes, not on what was looked at before.

  C16.cursor    = C11.step: a stream's bytes do not depend on where earlier reads/seeks left any shared cursor (inductive step).
  C16.redrain   (CrossHair) the real AKAI sample stack (C01) drained twice through the real encoder on ONE sample object: the second export
                yields the same bytes as the first (repeated runs on the same opened image).
  C16.rename    (symx) make_safe_names_routine / make_export_names_routine applied once, twice or in either order give the same names.
  C16.memo      (CrossHair) FileEntry.file, Partition.sat, PerformanceEntry.patch_entries, and (via C06.levels) every children property: realised
                once, same object afterwards.
  C16.hist      (CrossHair decision tree, concrete per path) histories of ls-at-path / export operations on ONE image object (tiny AKAI image and
                CDDA image built by independent writers) versus a fresh object per operation; image bytes unchanged.
  C16.ro        static: every open() in smpl_extract except export_wav's uses a read mode.
"""
import ast
import contextlib
import io
import itertools
import os
import struct
import z3
import smpl_extract.structural as structural
import smpl_extract.actions as actions
from smpl_extract.generalized.wav import WavSampleBuilder
from smpl_extract.structural import Image
from smpl_extract.generalized.sample import Sample
from vf.absfile import mkfile, byte_is, indices
from vf.util import conc, untraced
from vf.props import c01, c06, c11

CNT = [0]
LA = 8192
H = c01.H


# ------------------------------------------------------------------ C16.redrain
def h_redrain(P: int, nsec: int, s0: int, s1: int, fsize: int, start: int, end: int, k: int) -> int:
    """
    pre: 0 <= P <= 4 and 1 <= nsec <= 2 and 1 <= s0 <= 20 and 1 <= s1 <= 20 and s0 != s1
    pre: (nsec - 1) * 8192 < fsize <= nsec * 8192 and fsize >= 140
    pre: 0 <= start <= end and 140 + 2 * end <= fsize
    post: _ == 1
    """
    CNT[0] += 1
    nsec = 1 if nsec == 1 else 2
    f = mkfile((P + 21) * LA)
    chain = [s0, s1][:nsec]
    smp = c01.build_sample(f, P, 21, chain, fsize, start, end, s0)
    want = 2 * (end - start)
    for _round in (0, 1):
        out, total, _ = c01.drain(smp, 2 * nsec + 3)
        if out is None or total != want:
            return 0
        for kk in indices(k, want):
            i = H + 2 * start + kk
            a = P * LA + chain[i // LA] * LA + i % LA
            for (b0, blk) in out:
                if b0 <= kk < b0 + len(blk):
                    if not byte_is(blk, kk - b0, a):
                        return 0
    return 1


# ------------------------------------------------------------------ C16.rename (symx)
def p_rename(N=2, L=3, twin=False, timeout=900, exclude=(), only=None, replay=None):
    from vf import symx, sximg
    symx.reset()
    I = sximg.sym_image(summarize=("make_safe_name", "make_export_name", "_add_count_to_name"))
    img = I()
    raws, base = [], []
    for e in range(N):
        s, c = sximg.sym_str(f"r{e}", L, alphabet=[ord(ch) for ch in "aL1 -.:(/'"], minlen=1)
        raws.append(s)
        base += c

    def names(order):
        el = [Sample(name=raws[e], _path=["d", "x"]) for e in range(N)]
        for step in order:
            if step == "s":
                img.make_safe_names_routine(el)
            else:
                img.make_export_names_routine(el)
        return [(symx.SymStr.lift(e.safe_name), symx.SymStr.lift(e.export_name)) for e in el]

    def body():
        ref = names("se")
        viol = []
        for order in ("es", "sse", "ses", "see"):
            got = names(order)
            for (rs, re_), (gs, ge) in zip(ref, got):
                viol += [z3.Not(rs.eq(gs)), z3.Not(re_.eq(ge))]
        return z3.Or(viol)

    def describe(m):
        return {"raw_names": [s.concrete(m) for s in raws]}

    def rep(cex):
        real = Image.__new__(Image)

        def run(order):
            el = [Sample(name=r, _path=["d", "x"]) for r in cex["raw_names"]]
            for step in order:
                (real.make_safe_names_routine if step == "s" else real.make_export_names_routine)(el)
            return [(e.safe_name, e.export_name) for e in el]
        ref = run("se")
        return any(run(o) != ref for o in ("es", "sse", "ses", "see"))
    if replay is not None:
        return {"verdict": "refuted", "reproduced": rep(replay), "cex": replay}
    return symx.run_obligation(body, base, describe, rep, twin=twin, timeout=timeout)


# ------------------------------------------------------------------ C16.memo
def h_memo(kind: int, n: int) -> int:
    """
    pre: 0 <= kind <= 2 and 0 <= n <= 2
    post: _ == 1
    """
    CNT[0] += 1
    kind, n = conc(kind, 0, 2), conc(n, 0, 2)
    calls = [0]
    if kind == 0:
        from smpl_extract.akai.file_entry import FileEntry
        obj = ["content"] * (n + 1)

        def content():
            calls[0] += 1
            return obj
        fe = FileEntry("N", 0x73, content)
        a, b = fe.file, fe.file
    elif kind == 1:
        from smpl_extract.akai.partition import Partition
        sat = ["sat"]

        def fsat():
            calls[0] += 1
            return sat
        p = Partition(fsat, lambda ctx: [], "A:")
        a, b = p.sat, p.sat
    else:
        from smpl_extract.roland.s7xx.performance_entry import PerformanceEntry
        pe = ["patch"] * (n + 1)

        def fpe(ctx):
            calls[0] += 1
            return pe
        perf = PerformanceEntry(_f_patch_entries=fpe, _path=["p"])
        a, b = perf.patch_entries, perf.patch_entries
    return 1 if (a is b and calls[0] == 1) else 0


# ------------------------------------------------------------------ C16.hist
def _words(n, seed):
    return b"".join(struct.pack("<h", ((i * 7 + seed * 1000) % 60000) - 30000) for i in range(n))


def _akai_image():
    from vf import akaiw
    from vf.props import c20
    sf = akaiw.sample_file
    prog = c20.build_program(1, [2], [150])[0]
    return akaiw.partition([
        ("VOL A", [("KICK+1", 0x73, sf("KICK+1", _words(50, 1)), None), ("LEAD PRG", 0xf0, prog, None), ("SNARE", 0xf3, sf("SNARE", _words(60, 2), rate=22050, loop_type=1, loops=[(50, 3, 30, 9999), (40, 0, 20, 500)]), None),
                   ("PAD -L", 0x73, sf("PAD -L", _words(40, 3)), None), ("PAD -R", 0x73, sf("PAD -R", _words(40, 4)), None)], None),
        ("VOL B", [("HAT", 0x73, sf("HAT", _words(30, 5)), None), ("HAT", 0x73, sf("HAT", _words(20, 6)), None)], None)], size_sectors=16)


AKAI_OPS = [("ls", ""), ("ls", "A:/VOL A"), ("ls", "a/vol a/KICK 1"), ("ls", "A:/VOL A/SNARE"), ("ls", "Q:/NOPE"), ("ls", "A:/VOL A/LEAD PRG"), ("export", None)]


def _open_akai(img_bytes):
    return actions.determine_image_type(io.BufferedReader(io.BytesIO(img_bytes)))


def _cdda_files():
    bin_ = bytes((i * 13) & 0xFF for i in range(2352 * 5 + 10))
    cue = ['FILE "d.bin" BINARY\n', "  TRACK 01 AUDIO\n", '    TITLE "Intro/1"\n', "    INDEX 01 00:00:00\n", "  TRACK 02 AUDIO\n",
           '    TITLE "Intro/1"\n', "    INDEX 01 00:00:02\n", "  TRACK 03 AUDIO\n", "    INDEX 01 00:00:04\n"]
    return bin_, cue


CDDA_OPS = [("ls", ""), ("ls", "Intro 1"), ("ls", "Untitled Track 3"), ("ls", "nope/"), ("export", None)]


def _open_cdda():
    from smpl_extract.cuesheet import parse_cue_sheet
    from smpl_extract.cdda.image import CompactDiskAudioImageAdapter
    bin_, cue = _cdda_files()
    return CompactDiskAudioImageAdapter.from_bin_cue(io.BytesIO(bin_), parse_cue_sheet(list(cue)))


ROLAND_OPS = [("ls", ""), ("ls", "VolB/Perf1"), ("ls", "VolA/Perf0"), ("ls", "VolA/Perf0/Smp1"), ("ls", "VolA/Perf0/Patch0"), ("ls", "nope/x"), ("export", None)]
_ROLAND = []


def _roland_image():
    if not _ROLAND:
        from vf import rolandw
        from vf.props import c02
        _ROLAND.append(rolandw.build({
            "volumes": [("VolA", [0]), ("VolB", [1])], "performances": [("Perf0", [0]), ("Perf1", [1])], "patches": [("Patch0", [0]), ("Patch1", [1])],
            "partials": [("Part0", [0, 1, 2]), ("Part1", [2, 3, 4])],
            "samples": [dict(name="Smp0", words=c02._words(500, 1)), dict(name="Smp1", words=c02._words(5000, 2), chain=[1, 0], mode=3),
                        dict(name="Smp2", words=c02._words(300, 3), mode=5), dict(name="Smp3", words=c02._words(700, 4), cluster_top=1),
                        # a second sample living in Smp1's chain (same FAT head), starting one cluster in
                        dict(name="Smp4", words=c02._words(5000, 2)[9216:], share_with=1, cluster_top=1)]}))
    return _ROLAND[0]


def _do(image, op):
    """observable result of one operation: ("ls", text) or ("export", sorted [(path relative to the destination's parent, file bytes)], text).
    Export really writes below a fresh temporary directory (nothing in the package is rebound), which is read back and removed."""
    kind, arg = op
    buf = io.StringIO()
    if kind == "ls":
        with contextlib.redirect_stdout(buf):
            actions.ls_action(image, arg)
        return ("ls", buf.getvalue())
    import shutil
    import tempfile
    top = tempfile.mkdtemp(prefix="vf_exp_")
    out = {}
    try:
        with contextlib.redirect_stdout(buf):
            actions.export_samples_to_wav(image, os.path.join(top, "out"))
        for dp, _dn, fns in os.walk(top):
            for fn in fns:
                full = os.path.join(dp, fn)
                with open(full, "rb") as fh:
                    out[os.path.relpath(full, top).replace(os.sep, "/")] = fh.read()
    finally:
        shutil.rmtree(top, ignore_errors=True)
    return ("export", sorted(out.items()), buf.getvalue())


def h_hist(fmt: int, n: int, o0: int, o1: int, o2: int, o3: int = 0) -> int:
    """
    pre: 0 <= fmt <= 2 and 1 <= n <= 4 and 0 <= o0 <= 6 and 0 <= o1 <= 6 and 0 <= o2 <= 6 and 0 <= o3 <= 6
    post: _ == 1
    """
    CNT[0] += 1
    fmt, n = conc(fmt, 0, 2), conc(n, 1, 4)
    ops_all = (AKAI_OPS, CDDA_OPS, ROLAND_OPS)[fmt]
    idx = [conc(o, 0, 6) for o in (o0, o1, o2, o3)[:n]]
    with untraced():
        if any(i >= len(ops_all) for i in idx):
            return 1
        ops = [ops_all[i] for i in idx]
        if fmt in (0, 2):
            data = _akai_image() if fmt == 0 else _roland_image()
            pristine = bytes(data)
            shared = _open_akai(data)
            fresh = lambda: _open_akai(data)
        else:
            shared = _open_cdda()
            fresh = _open_cdda
        for op in ops:
            got = _do(shared, op)
            want = _do(fresh(), op)
            if got != want:
                return 0
        if fmt in (0, 2) and data != pristine:
            return 0
    return 1


# ------------------------------------------------------------------ C16.ro (static)
def p_readonly(twin=False, timeout=60, exclude=(), only=None, replay=None):
    import smpl_extract
    root = os.path.dirname(smpl_extract.__file__)
    bad, seen = [], 0
    for dp, _dn, fns in os.walk(root):
        for fn in fns:
            if not fn.endswith(".py"):
                continue
            path = os.path.join(dp, fn)
            tree = ast.parse(open(path, encoding="utf-8").read())
            for node in ast.walk(tree):
                if isinstance(node, ast.Call) and isinstance(node.func, ast.Name) and node.func.id == "open":
                    seen += 1
                    mode = None
                    if len(node.args) >= 2 and isinstance(node.args[1], ast.Constant):
                        mode = node.args[1].value
                    for kw in node.keywords:
                        if kw.arg == "mode" and isinstance(kw.value, ast.Constant):
                            mode = kw.value.value
                    mode = "r" if mode is None and len(node.args) < 2 else mode
                    fn_name = _enclosing(tree, node)
                    if mode not in ("r", "rb") and fn_name != "export_wav":
                        bad.append("%s:%d open(mode=%r) in %s" % (os.path.relpath(path, root), node.lineno, mode, fn_name))
    out = {"paths": seen, "queries": 0, "solver_s": 0.0, "messages": []}
    if twin:
        out.update(verdict="refuted" if seen else "discharged", reproduced=True, cex={"open_calls": seen}, cex_message="witness")
        return out
    if bad:
        out.update(verdict="refuted", reproduced=True, cex={"writable_opens": bad}, cex_message="; ".join(bad))
    else:
        out.update(verdict="discharged")
    return out


def _enclosing(tree, target):
    best = "<module>"
    for fn in ast.walk(tree):
        if isinstance(fn, (ast.FunctionDef, ast.AsyncFunctionDef)):
            for n in ast.walk(fn):
                if n is target:
                    best = fn.name
    return best


RUNS = ["smpl_extract.structural:Traversable.children", "smpl_extract.akai.volume:Volume.files", "smpl_extract.akai.file_entry:FileEntry.file",
        "smpl_extract.akai.partition:Partition.sat", "smpl_extract.roland.s7xx.performance_entry:PerformanceEntry.patch_entries",
        "smpl_extract.structural:Image.make_safe_names_routine", "smpl_extract.structural:Image.make_export_names_routine",
        "smpl_extract.actions:ls_action", "smpl_extract.actions:export_samples_to_wav", "smpl_extract.transcoder:make_transcoder",
        "smpl_extract.util.constructs:ElementAdapter.wrap_child_realization"] + c01.RUNS

META = {
    "assumptions": ["C16.hist: histories are chosen by the solver and then concrete (bounded exhaustive over the decision tree); images are a 128 KB AKAI image "
                    "(2 volumes, special characters, duplicate names, an L/R pair) and a 3-track CDDA image built by independent writers",
                    "ls output is captured from stdout; export really writes below a temporary directory that is read back",
                    "Roland histories are out of reach (>= 2.8 MB image, minutes per parse under tracing)"],
    "trusted": ["CPython 3.12", "z3 5.1", "CrossHair 0.0.110", "vf.symx", "vf.akaiw (independent AKAI writer)", "construct 2.10"],
    "out_of_claim": ["Roland images", "histories longer than 3 operations", "concurrent use of one image object"],
}


def hist_obligations(tier):
    q = tier == "quick"
    T = 170 if q else 900
    obs = []
    for fmt in (0, 1, 2):
        for n in ((1, 2, 3) if q else (1, 2, 3, 4)):
            if n >= 3:
                for first in range(5 if fmt == 1 else 7):
                    obs.append(dict(name=f"C16.hist/{('akai', 'cdda', 'roland')[fmt]}/n={n}/first={first}", module="vf.props.c16", func="h_hist",
                                    extra_pre=[f"fmt == {fmt}", f"n == {n}", f"o0 == {first}"], timeout=T, runs=RUNS, sym="the remaining operations", bound=f"{n}-operation histories", stubs=["export to a temporary directory, read back"]))
            else:
                obs.append(dict(name=f"C16.hist/{('akai', 'cdda', 'roland')[fmt]}/n={n}", module="vf.props.c16", func="h_hist", extra_pre=[f"fmt == {fmt}", f"n == {n}"],
                                timeout=T, runs=RUNS, sym="every operation of the history", bound=f"{n}-operation histories over {5 if fmt == 1 else 7} operations", stubs=["export to a temporary directory, read back"]))
    return obs


def obligations(tier, seed):
    q = tier == "quick"
    T = 170 if q else 900
    obs = []
    for nsec in (1, 2):
        obs.append(dict(name=f"C16.redrain/nsec={nsec}", module="vf.props.c16", func="h_redrain", extra_pre=[f"nsec == {nsec}"] + (["start < end"] if True else []),
                        timeout=T, runs=RUNS, sym="partition start, chain, file size, markers, byte index", bound=f"file of {nsec} sector(s), exported twice from one object",
                        stubs=["AbsFile/Spans", "StubSat"]))
    for N, L in (((1, 4), (2, 3)) if q else ((1, 6), (2, 4), (3, 3))):
        obs.append(dict(name=f"C16.rename/N={N}/len={L}", engine="P", module="vf.props.c16", func="p_rename", params={"N": N, "L": L}, timeout=400 if q else 1500,
                        runs=RUNS, sym="raw names of N siblings", bound=f"{N} siblings, names <= {L} over 10 character classes; 5 routine orders", stubs=["SymPattern"]))
    obs.append(dict(name="C16.memo", module="vf.props.c16", func="h_memo", extra_pre=[], timeout=60, runs=RUNS, sym="which lazy property, size of its value", bound="3 properties", stubs=["counting realisers"]))
    for o in c06.obligations(tier, seed):
        if o["name"].startswith("C06.levels"):
            obs.append(dict(o, name=o["name"].replace("C06.levels", "C16.memo/children")))
    obs += hist_obligations(tier)
    obs.append(dict(name="C16.ro", engine="P", module="vf.props.c16", func="p_readonly", params={}, timeout=60, runs=RUNS, sym="-", bound="AST of every module", stubs=[]))
    for o in c11.obligations(tier, seed):
        if o["name"].startswith("C11.step") and (not q or "stream0/read" in o["name"]):
            obs.append(dict(o, name=o["name"].replace("C11.step", "C16.cursor")))
    return obs
