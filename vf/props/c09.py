"""C09 — listing and export do not depend on the container the image is wrapped in.

  C09.mdf      a read of [p, p+n) through the real MdfStream over the independently wrapped image returns image bytes [p, p+n)  (= C08.mdf)
  C09.mdx      real MdxStream with the header parser stubbed (symbolic eof): the window is exactly the bytes behind the 64-byte header
  C09.cascade  real determine_image_type with the four detectors / constructors stubbed: the wrapper and parser chosen depend only on
               the detector outcomes, in the documented order (mdf before mdx, Roland before AKAI)
  C09.cue      = C03.dispatch (cue with a data track -> sampler path on the bin; all audio -> CDDA)
  C09.sig      the real signature tests on a concrete prefix with ONE symbolic byte: the verdict changes only on signature bytes
"""
import io
from construct import Container
import smpl_extract.actions as actions
import smpl_extract.alcohol.mdx as mdxmod
from smpl_extract.alcohol.mdf import is_mdf_image, MdfStream, MDF_SECTOR_HEADER_MAGIC
from smpl_extract.alcohol.mdx import is_mdx_image, MdxStream, MdxHeaderConstruct, MDX_SECTOR_HEADER_MAGIC
from smpl_extract.roland.s7xx.image import is_roland_s7xx_image
from smpl_extract.util.stream import StreamOffset
from vf.absfile import mkfile
from vf.util import conc, untraced
from vf import hist
from vf.props import c08, c03

CNT = [0]
MDX_HDR = 64                       # MDX header: 16 magic + 2 version + 26 copyright + 4 pad + 8 eof + 8 pad (format notes)


class _StubHeader:
    """stands for MdxHeaderConstruct: consumes the header, yields a symbolic eof field"""

    def __init__(self, eof):
        self.eof = eof

    def parse_stream(self, stream, **kw):
        stream.seek(MDX_HDR, 0)
        return Container(eof=self.eof)

    def sizeof(self, **kw):
        return MdxHeaderConstruct.sizeof()          # the real struct's size


def h_mdx(img: int, k0: int, a0: int, k1: int, a1: int, nops: int, k: int) -> int:
    """
    pre: 1 <= img <= 30000
    pre: 0 <= k0 <= 4 and 0 <= k1 <= 4 and -40000 <= a0 <= 40000 and -40000 <= a1 <= 40000
    pre: (k0 != 3 or a0 >= 0) and (k1 != 3 or a1 >= 0) and 1 <= nops <= 2
    post: _ == 1
    """
    CNT[0] += 1
    # independent wrapper: file = 64-byte header whose eof field is the total length, then the image
    f = mkfile(MDX_HDR + img)
    saved = mdxmod.MdxHeaderConstruct
    mdxmod.MdxHeaderConstruct = _StubHeader(MDX_HDR + img)
    try:
        s = MdxStream(f)
    finally:
        mdxmod.MdxHeaderConstruct = saved
    if MdxHeaderConstruct.sizeof() != MDX_HDR:
        return 0
    if not isinstance(s, StreamOffset) or s.substream is not f:
        return 0
    ops = [(k0, a0), (k1, a1)][:nops]
    return hist.run(s, img, lambda p: MDX_HDR + p, ops, k)


class _Rec:
    def __init__(self):
        self.log = []


def h_cascade(mdf: int, mdx: int, rol: int) -> int:
    """
    pre: 0 <= mdf <= 1 and 0 <= mdx <= 1 and 0 <= rol <= 1
    post: _ == 1
    """
    CNT[0] += 1
    rec = _Rec()
    names = ("is_mdf_image", "is_mdx_image", "is_roland_s7xx_image", "MdfStream", "MdxStream", "RolandSxxImageParser", "AkaiImageParser")
    saved = {n: getattr(actions, n) for n in names}
    raw = io.BytesIO(b"")
    actions.is_mdf_image = lambda s: rec.log.append(("is_mdf", s)) or mdf == 1
    actions.is_mdx_image = lambda s: rec.log.append(("is_mdx", s)) or mdx == 1
    actions.is_roland_s7xx_image = lambda s: rec.log.append(("is_roland", s)) or rol == 1
    actions.MdfStream = lambda s: ("MDF", s)
    actions.MdxStream = lambda s: ("MDX", s)
    actions.RolandSxxImageParser = lambda s: ("ROLAND", s)
    actions.AkaiImageParser = lambda s: ("AKAI", s)
    try:
        res = actions.determine_image_type(raw)
    finally:
        for n in names:
            setattr(actions, n, saved[n])
    inner = ("MDF", raw) if mdf == 1 else (("MDX", raw) if mdx == 1 else raw)
    want = ("ROLAND", inner) if rol == 1 else ("AKAI", inner)
    if res != want:
        return 0
    # the Roland/AKAI decision is taken on the UNWRAPPED stream, so it cannot depend on the container
    asked = [x for x in rec.log if x[0] == "is_roland"]
    if len(asked) != 1 or asked[0][1] != inner:
        return 0
    return 1


# ------------------------------------------------------------------ signatures, one symbolic byte
def _mdf_prefix():
    return MDF_SECTOR_HEADER_MAGIC + bytes([0, 2, 0]) + bytes([1]) + bytes(2048 + 288)


def _mdx_prefix():
    return MDX_SECTOR_HEADER_MAGIC + b"\x02\x01" + b"\xa9" + b" " * 25 + b"\xff" * 4 + (64 + 100).to_bytes(8, "little") + bytes(8) + bytes(100)


def h_sig(which: int, pos: int, b: int) -> int:
    """
    pre: 0 <= which <= 1 and 0 <= pos <= 63 and 0 <= b <= 255
    post: _ == 1
    """
    CNT[0] += 1
    which, pos, b = conc(which, 0, 1), conc(pos, 0, 63), conc(b, 0, 255)
    with untraced():
        base = _mdf_prefix() if which == 0 else _mdx_prefix()
        det = is_mdf_image if which == 0 else is_mdx_image
        if not det(io.BytesIO(base)):
            return 0
        data = base[:pos] + bytes([b]) + base[pos + 1:]
        st = io.BytesIO(data)
        st.seek(5)
        got = det(st)
        if st.tell() != 5:
            return 0                                     # the probe must leave the cursor where it was
        # signature bytes (format notes): MDF raw sector = 12-byte sync pattern, 3 address bytes, mode byte 1;
        # MDX = 16-byte magic, 2 version bytes (free), copyright sign 0xA9, 25 free, 4 padding, eof, padding
        if which == 0:
            sig = pos < 12 or pos == 15
        else:
            sig = pos < 16 or pos == 18
        if b == base[pos]:
            return 1 if got else 0
        if sig:
            return 1 if not got else 0
        return 1 if got else 0
    return 1


# ------------------------------------------------------------------ C09.image: one AKAI image in five containers through the real entry points
def _wrap2352(img):
    """independent MODE1/2352 writer: 12 sync bytes, 3 address bytes, mode 1, 2048 user bytes, 288 EDC/ECC bytes per sector"""
    out = bytearray()
    n = (len(img) + 2047) // 2048
    for i in range(n):
        block = img[i * 2048:(i + 1) * 2048].ljust(2048, b"\0")
        out += b"\x00" + b"\xff" * 10 + b"\x00" + bytes([(i // 4500) % 100, (i // 75) % 60, i % 75]) + b"\x01" + block + bytes(288)
    return bytes(out)


def _wrap_mdx(img):
    return b"MEDIA DESCRIPTOR" + b"\x02\x01" + b"\xa9" + b" " * 25 + b"\xff" * 4 + (64 + len(img)).to_bytes(8, "little") + bytes(8) + img


def _roland_image():
    from vf import rolandw
    from vf.props import c02
    model = {"volumes": [("VolA", [0])], "performances": [("Perf0", [0]), ("Perf1", [1])], "patches": [("Patch0", [0]), ("Patch1", [1])],
             "partials": [("Part0", [0, 1]), ("Part1", [1])],
             "samples": [dict(name="Smp0", words=c02._words(5000, 1), chain=[1, 0], freq_code=1), dict(name="Smp1", words=c02._words(4608, 2), mode=5, freq_code=3)]}
    return rolandw.build(model)


def h_image(container: int, tail: int, what: int, fmt: int) -> int:
    """
    pre: 1 <= container <= 4 and 0 <= tail <= 2 and 0 <= what <= 5 and 0 <= fmt <= 1
    post: _ == 1
    """
    CNT[0] += 1
    container, tail, what, fmt = conc(container, 1, 4), conc(tail, 0, 2), conc(what, 0, 5), conc(fmt, 0, 1)
    with untraced():
        import os
        import shutil
        import struct
        import tempfile
        from vf import akaiw
        from vf.props import c16, c01
        sf = akaiw.sample_file
        files = [("AAA", 0x73, sf("AAA", c01._words(6000, 1)), [1, 0]), ("PAD -L", 0x73, sf("PAD -L", c01._words(300, 3)), None),
                 ("PAD -R", 0x73, sf("PAD -R", c01._words(300, 4)), None), ("BBB", 0xf3, sf("BBB", c01._words(4026, 2), rate=22050), None)]
        img = akaiw.partition([("VOL ONE", files, None), ("VOL TWO", [("AAA", 0x73, sf("AAA", c01._words(9, 7)), None)], None)], size_sectors=24)
        if fmt == 1:
            img = _roland_image()
        img += bytes((0, 1000, 2048 + 517)[tail])         # image length a multiple of 2048 or not
        d = tempfile.mkdtemp(prefix="vf_c09_")
        try:
            def put(name, data):
                with open(os.path.join(d, name), "wb") as fh:
                    fh.write(data)
                return os.path.join(d, name)
            raw = put("raw.img", img)
            if container == 1:
                other = put("sec.img", _wrap2352(img))
            elif container == 2:
                other = put("img.mdx", _wrap_mdx(img))
            elif container == 3:
                put("data file (1).bin", img)                 # a data file name with blanks and brackets
                other = put("c.cue", b'FILE "data file (1).bin" BINARY\r\n  TRACK 01 MODE1/2048\r\n    INDEX 01 00:00:00\r\n')
            else:
                put("data2.bin", _wrap2352(img))
                other = put("c2.cue", b'file "data2.bin" binary\n  track 01 mode1/2352\n    index 01 00:00:00\n')
            if fmt == 0:
                op = [("ls", ""), ("ls", "A:"), ("ls", "a/VOL ONE"), ("ls", "A:/VOL ONE/BBB"), ("ls", "A:/NOPE"), ("export", None)][what]
            else:
                op = [("ls", ""), ("ls", "VolA"), ("ls", "VolA/Perf0"), ("ls", "_Orphan_perf/Perf1/Smp1"), ("ls", "VolA/NOPE"), ("export", None)][what]
            a = c16._do(actions.determine_image_type(raw), op)
            b = c16._do(actions.determine_image_type(other), op)
            if type(actions.determine_image_type(other)).__name__ != ("AkaiImageParser", "RolandS7xxImage")[fmt]:
                return 0
            return 1 if a == b else 0
        finally:
            shutil.rmtree(d, ignore_errors=True)


RUNS = ["smpl_extract.actions:determine_image_type", "smpl_extract.alcohol.mdx:MdxStream", "smpl_extract.alcohol.mdx:is_mdx_image",
        "smpl_extract.alcohol.mdf:is_mdf_image", "smpl_extract.alcohol.mdf:MdfStream", "smpl_extract.roland.s7xx.image:is_roland_s7xx_image",
        "smpl_extract.actions:attempt_parse_cue_sheet", "smpl_extract.util.stream:StreamOffset"]

META = {
    "assumptions": ["the parsers are deterministic functions of the bytes they read through the stream interface (no dependence on the stream's type); "
                    "with that, 'same bytes at every logical position' (C09.mdf/C09.mdx, C08) + 'same parser chosen' (C09.cascade) give the same ls/export",
                    "independent wrapper models: 2352-byte raw sectors = 16 header + 2048 data + 288 EDC; MDX = 64-byte header (eof = total length) + image",
                    "C09.sig: the symbolic byte is concrete per path (256 values x 64 positions walked by the solver's decision tree)"],
    "trusted": ["CPython 3.12", "z3 5.1", "CrossHair 0.0.110", "construct 2.10 (header parsing)", "AbsFile/Spans"],
    "out_of_claim": ["MDX padding bytes 44..47 and 56..63 are accepted with any value by construct.Padding on parse (no claim)", "Roland signature bytes (regex on 3 strings; covered only by the cascade stub)"],
}


def obligations(tier, seed):
    q = tier == "quick"
    T = 170 if q else 900
    obs = []

    def ob(name, func, pre, sym, bound, stubs):
        return dict(name=name, module="vf.props.c09", func=func, extra_pre=pre, timeout=T, runs=RUNS, sym=sym, bound=bound, stubs=stubs)
    for o in c08.obligations(tier, seed):
        if o["name"].startswith(("C08.mdf", "C08.nest/mdf4")):
            obs.append(dict(o, name=o["name"].replace("C08.", "C09.mdf/")))
    for k0 in range(5):
        obs.append(ob(f"C09.mdx/ops={k0}", "h_mdx", ["nops == 2", f"k0 == {k0}"], "image length, operations, byte index", "images <= 30000 bytes (any length, not only multiples of 2048); 2 operations",
                      ["AbsFile/Spans", "MdxHeaderConstruct stub (symbolic eof)"]))
    obs.append(ob("C09.cascade", "h_cascade", [], "outcome of the three detectors", "all 8 combinations", ["detector / constructor recorders"]))
    for o in c03.obligations(tier, seed):
        if o["name"] == "C03.dispatch":
            obs.append(dict(o, name="C09.cue"))
    for container, cname in ((1, "2352-sectors"), (2, "mdx"), (3, "cue-raw"), (4, "cue-2352")):
        for fmt, fname in ((0, "akai"), (1, "roland")):
            obs.append(ob(f"C09.image/{fname}/{cname}", "h_image", [f"container == {container}", f"fmt == {fmt}"] + (["tail <= 1"] if (q and fmt == 1) else []),
                          "image tail (multiple of 2048 or not), operation (4 ls levels, invalid path, export)",
                          f"one {fname.upper()} image from the independent writer, wrapped by independent container writers; real files; compared with the raw image",
                          ["independent AKAI / S-770 / MODE1-2352 / MDX / cue writers", "temporary files"]))
    for which in (0, 1):
        positions = (list(range(0, 20)) + [44, 48, 63]) if q else list(range(64))
        for lo in range(0, len(positions), 2):
            ps = positions[lo:lo + 2]
            obs.append(ob(f"C09.sig/{'mdf' if which == 0 else 'mdx'}/bytes={'+'.join(map(str, ps))}", "h_sig",
                          [f"which == {which}", "(" + " or ".join(f"pos == {p}" for p in ps) + ")"], "value of one prefix byte",
                          f"prefix byte(s) {ps} x 256 values", []))
    return obs
