"""C15 — on a truncated image every reported file is a well-formed prefix.

The stream-stack harnesses of C01 (AKAI mono), C11 (AKAI stereo through the real PipelineTranscoder) and C03 (CDDA) are re-run
with the backing file cut at a SYMBOLIC byte position T.  Assertions: the transcoder loop ends; every block is whole frames;
every emitted byte is the byte the complete image yields at that PCM position (so the PCM is a prefix - never bytes from
elsewhere, never padding); if all the sample's sectors lie below T the output is complete.
"""
import smpl_extract.util.stream as S
import smpl_extract.transcoder as T_
from smpl_extract.util.stream import StreamOffset, StreamWrapper
from smpl_extract.akai.sat import Segment
from smpl_extract.data_streams import DataStream, StreamEncoding, Endianess
from smpl_extract.generalized.sample import Sample, combine_stereo
from smpl_extract.generalized.wav import WavSampleAdapter
from smpl_extract.formats.wav import RiffStruct
from smpl_extract.cuesheet import CueSheetFile, CueSheetTrack, CueSheetIndex
from smpl_extract.cdda.image import CompactDiskAudioImageAdapter
from vf.absfile import mkfile, byte_is, indices, REAL
from vf.props import c01, c13

CNT = [0]
LA = 8192
H = c01.H


def _shim():
    if not REAL:
        from vf.npshim import NpShim
        S.np = NpShim
        T_.np = NpShim


def _drain(gen, frame, cap):
    out, total = [], 0
    for blk in gen:
        if len(blk) == 0 or len(blk) % frame != 0:
            return None, None
        out.append((total, blk))
        total += len(blk)
        if len(out) > cap:
            return None, None
    return out, total


def h_mono(P: int, nsec: int, s0: int, s1: int, s2: int, fsize: int, start: int, end: int, cut: int, k: int) -> int:
    """
    pre: 0 <= P <= 4 and 1 <= nsec <= 3
    pre: 1 <= s0 <= 20 and 1 <= s1 <= 20 and 1 <= s2 <= 20 and s0 != s1 and s0 != s2 and s1 != s2
    pre: (nsec - 1) * 8192 < fsize <= nsec * 8192 and fsize >= 140
    pre: 0 <= start <= end and 140 + 2 * end <= fsize
    pre: 0 <= cut <= (P + 21) * 8192
    post: _ == 1
    """
    CNT[0] += 1
    nsec = 1 if nsec == 1 else (2 if nsec == 2 else 3)
    f = mkfile(cut)                                      # the image file ends at byte `cut`
    chain = [s0, s1, s2][:nsec]
    smp = c01.build_sample(f, P, 21, chain, fsize, start, end, s0)
    out, total, _ = c01.drain(smp, 2 * nsec + 3)
    if out is None:
        return 0
    want = 2 * (end - start)
    if total > want or total % 2 != 0:
        return 0
    for kk in indices(k, total):
        i = H + 2 * start + kk
        a = P * LA + chain[i // LA] * LA + i % LA
        if a >= cut:
            return 0                                     # a byte from beyond the end of the file cannot be real
        for (b0, blk) in out:
            if b0 <= kk < b0 + len(blk):
                if not byte_is(blk, kk - b0, a):
                    return 0
    complete = True
    for s in chain:
        if (P + s + 1) * LA > cut:
            complete = False
    if complete and total != want:
        return 0
    return 1


def h_stereo(P: int, s0: int, s1: int, s2: int, s3: int, w0: int, w1: int, n0: int, n1: int, cut: int, k: int) -> int:
    """
    pre: 0 <= P <= 3 and 1 <= s0 <= 20 and 1 <= s1 <= 20 and 1 <= s2 <= 20 and 1 <= s3 <= 20
    pre: s0 != s1 and s2 != s3 and s0 != s2 and s0 != s3 and s1 != s2 and s1 != s3
    pre: 0 <= w0 and 0 <= w1 and 0 <= n0 <= 2100 and 0 <= n1 <= 2100 and w0 + 2 * n0 <= 16384 and w1 + 2 * n1 <= 16384
    pre: 0 <= cut <= (P + 24) * 8192
    post: _ == 1
    """
    CNT[0] += 1
    _shim()
    f = mkfile(cut)
    part = StreamOffset(f, 24 * LA, P * LA)
    enc = StreamEncoding(endianess=Endianess.LITTLE, sample_width=2, num_interleaved_channels=1)
    smp = []
    geo = ((s0, s1, w0, n0), (s2, s3, w1, n1))
    for (a, b, woff, n) in geo:
        win = StreamOffset(StreamWrapper(Segment(part, [a, b]), 2 * LA), 2 * n, woff)
        smp.append(Sample(name="x", num_channels=1, data_streams=[DataStream(win, enc)]))
    st = combine_stereo(smp[0], smp[1], "x")
    cont = WavSampleAdapter(RiffStruct)._encode(st, {}, "")
    out, total = _drain(cont["data"]["chunks"][-1]["data"], 4, 6)
    if out is None:
        return 0
    # prefix of the complete export: frame f < min(n0, n1) holds L[f], R[f]; frames beyond the shorter channel are the complete
    # image's own padding (zeros) - on a cut image no frame may contain a byte the file does not have
    lo = n0 if n0 < n1 else n1
    hi = n0 if n0 > n1 else n1
    if total > 4 * hi:
        return 0
    ks = range(total) if REAL else ([k] if 0 <= k < total else [])
    for kk in ks:
        fr, c, b = kk // 4, (kk // 2) % 2, kk % 2
        (a_, b_, woff, n) = geo[c]
        for (b0, blk) in out:
            if b0 <= kk < b0 + len(blk):
                if fr < n:
                    i = woff + 2 * fr + b
                    want = P * LA + [a_, b_][i // LA] * LA + i % LA
                    if want >= cut:
                        return 0
                    if not byte_is(blk, kk - b0, want):
                        return 0
    return 1


def h_roland(mode: int, c0: int, c1: int, start: int, endp: int, cut: int, k: int) -> int:
    """
    pre: (mode == 0 or mode == 5) and 2 <= c0 <= 30 and 2 <= c1 <= 30 and c0 != c1
    pre: 0 <= start <= endp < 9216 and 0 <= cut <= 0x2b1000 + 32 * 9216
    post: _ == 1
    """
    CNT[0] += 1
    _shim()
    from smpl_extract.roland.s7xx.fat import RolandFile
    from smpl_extract.roland.s7xx.sample_file import SampleFile
    from smpl_extract.roland.s7xx.sample_entry import SampleParamLoopPoint as P
    from smpl_extract.roland.s7xx.data_types import RolandLoopMode
    LR, D0 = 9216, 0x2b1000
    mode = 0 if mode == 0 else 5
    f = mkfile(cut)
    data = StreamOffset(f, 32 * LR, D0)
    sl = [c0, c1]
    sf = SampleFile(loop_mode=RolandLoopMode(mode), start_sample=P(0, start), sustain_loop_start=P(0, start), sustain_loop_end=P(0, endp),
                    release_loop_start=P(0, 0), release_loop_end=P(0, 0), name="x", _data_stream=RolandFile(data, sl), _path=["v", "p", "x"])
    cont = WavSampleAdapter(RiffStruct)._encode(sf.to_generalized(), {}, "")
    out, total = _drain(cont["data"]["chunks"][-1]["data"], 2, 8)
    if out is None:
        return 0
    n = endp - start + 1
    if total > 2 * n:
        return 0
    for kk in indices(k, total):
        w = start + (n - 1 - kk // 2) if mode == 5 else start + kk // 2
        i = 2 * w + kk % 2
        a = D0 + sl[i // LR] * LR + i % LR
        if a >= cut:
            return 0
        for (b0, blk) in out:
            if b0 <= kk < b0 + len(blk):
                if not byte_is(blk, kk - b0, a):
                    return 0
    complete = True
    for c in sl:
        if D0 + (c + 1) * LR > cut:
            complete = False
    if complete and total != 2 * n:
        return 0
    return 1


def h_cdda(f0: int, df: int, tail: int, last: int, cut: int, k: int) -> int:
    """
    pre: 0 <= f0 <= 3 and 1 <= df <= 3 and 0 <= tail <= 5000 and 0 <= last <= 1
    pre: 0 <= cut <= 2352 * (f0 + df) + tail
    post: _ == 1
    """
    CNT[0] += 1
    SECTOR = 2352
    full = SECTOR * (f0 + df) + tail
    sheet = CueSheetFile("x.bin", [CueSheetTrack(1, "AUDIO", None, [CueSheetIndex(1, 0, 0, f0)]),
                                  CueSheetTrack(2, "AUDIO", "B", [CueSheetIndex(1, 0, 0, f0 + df)])])
    f = mkfile(cut)
    img = CompactDiskAudioImageAdapter.from_bin_cue(f, sheet)
    if len(img.tracks) != 2:
        return 0
    t = img.tracks[1] if last == 1 else img.tracks[0]
    cont = WavSampleAdapter(RiffStruct)._encode(t.to_generalized(), {}, "")
    out, total = _drain(cont["data"]["chunks"][-1]["data"], 4, 6)
    if out is None:
        return 0
    lo = SECTOR * (f0 + df) if last == 1 else SECTOR * f0
    hi = full if last == 1 else SECTOR * (f0 + df)
    want = hi - lo
    want = want - want % 4
    if total > want:
        return 0
    for kk in indices(k, total):
        if lo + kk >= cut:
            return 0
        for (b0, blk) in out:
            if b0 <= kk < b0 + len(blk):
                if not byte_is(blk, kk - b0, lo + kk):
                    return 0
    if hi <= cut and total != want:
        return 0
    return 1


# ------------------------------------------------------------------ whole AKAI image cut at a solver-chosen position (decision tree; concrete per path)
def h_image(sector: int, off_i: int, order: int) -> int:
    """
    pre: 0 <= sector <= 23 and 0 <= off_i <= 9 and 0 <= order <= 1
    post: _ == 1
    """
    CNT[0] += 1
    from vf.util import conc, untraced
    sector, off_i, order = conc(sector, 0, 23), conc(off_i, 0, 9), conc(order, 0, 1)
    with untraced():
        import io
        import struct
        from vf import akaiw
        from vf.props import c16
        import smpl_extract.actions as actions

        def words(n, seed):
            return b"".join(struct.pack("<h", ((i * 7 + seed * 1000) % 60000) - 30000) for i in range(n))
        sf = akaiw.sample_file
        # directory in sector 3 (4 left free); AAA (2 sectors: 5,6 or reversed), BBB (sector 7), CCC -L / CCC -R (8, 9)
        files = [("AAA", 0x73, sf("AAA", words(6000, 1)), [1, 0] if order else None), ("BBB", 0xf3, sf("BBB", words(60, 2)), None),
                 ("CCC -L", 0x73, sf("CCC -L", words(300, 3)), None), ("CCC -R", 0x73, sf("CCC -R", words(300, 4)), None)]
        lay = {}
        # a second volume behind the first one's files: its directory sector lies AFTER them, so that cuts fall between the data of volume 1
        # and the directory of volume 2 (seed C15c)
        # ZZZ is listed FIRST in volume 2 but stored behind everything else of the partition: a cut can take ZZZ's header away while DDD, listed
        # after it, lies entirely before the cut (seed C15d)
        files2 = [("ZZZ", 0x73, sf("ZZZ", words(100, 7)), None, "late"), ("DDD", 0x73, sf("DDD", words(200, 5)), None)]
        img = akaiw.partition([("VOL", files, None), ("VOL2", files2, None)], size_sectors=16, layout=lay)
        # a second partition (sectors 16..23 of the image): cuts inside ITS header, volume table and SAT must leave partition A's files alone
        layb = {}
        img += akaiw.partition([("VB", [("EEE", 0x73, sf("EEE", words(100, 6)), None)], None)], size_sectors=8, layout=layb)
        full = dict(c16._do(actions.determine_image_type(io.BufferedReader(io.BytesIO(img))), ("export", None))[1])
        cut = sector * 8192 + (0, 1, 50, 139, 140, 141, 215, 1000, 4096, 8191)[off_i]
        try:
            image = actions.determine_image_type(io.BufferedReader(io.BytesIO(img[:cut])))
            got = dict(c16._do(image, ("export", None))[1])
        except Exception:
            got = None                                   # export ended with an error: nothing (more) is reported ...
        # ... but a file whose directory entry, header and data sectors all lie before the cut must have been exported complete
        end = lambda *fn: 1 + max(s for f in fn for s in lay[("VOL", f)])                     # first sector after the files' data (from the writer's layout)
        extent = {"out/A/VOL/AAA.wav": end("AAA"), "out/A/VOL/BBB.wav": end("BBB"), "out/A/VOL/CCC.wav": end("CCC -L", "CCC -R"),
                  "out/A/VOL2/DDD.wav": 1 + max(lay[("VOL2", "DDD")]), "out/A/VOL2/ZZZ.wav": 1 + max(lay[("VOL2", "ZZZ")]),
                  "out/B/VB/EEE.wav": 16 + 1 + max(layb[("VB", "EEE")])}
        if sorted(extent.values()) != [7, 8, 10, 13, 14, 22] or lay[("VOL2", None)] != [10] or len(full) != 6:
            raise AssertionError("harness: layout of the written image is not the one the cut positions were chosen for")
        for path, end_sector in extent.items():
            if cut >= end_sector * 8192:
                if got is None or got.get(path) != full[path]:
                    return 0
        if got is None:
            return 1
        for path, data in got.items():
            ref = full.get(path)
            if ref is None:
                # the lone half of a stereo pair whose partner is unreadable is exported under its own name
                if path in ("out/A/VOL/CCC -L.wav", "out/A/VOL/CCC -R.wav"):
                    continue
                return 0
            try:
                chunks = _riff(data)
                rchunks = _riff(ref)
            except ValueError:
                return 0
            if not rchunks[-1][1].startswith(chunks[-1][1]) or len(chunks[-1][1]) % 2 != 0:
                return 0                                 # PCM is a prefix of the complete image's PCM, whole frames
    return 1


def h_image_roland(cluster: int, off_i: int, perm: int) -> int:
    """
    pre: 2 <= cluster <= 8 and 0 <= off_i <= 5 and 0 <= perm <= 1
    post: _ == 1
    """
    CNT[0] += 1
    from vf.util import conc, untraced
    cluster, off_i, perm = conc(cluster, 2, 8), conc(off_i, 0, 5), conc(perm, 0, 1)
    with untraced():
        import io
        from vf import rolandw
        from vf.props import c16, c02
        import smpl_extract.actions as actions
        # Smp0: clusters 2,3 (or stored 3,2); Smp1: cluster 4,5 reversed playback; Smp2: cluster 6
        model = {"volumes": [("VolA", [0])], "performances": [("Perf0", [0])], "patches": [("Patch0", [0, 1])],
                 "partials": [("Part0", [0, 1]), ("Part1", [2])],
                 "samples": [dict(name="Smp0", words=c02._words(9000, 1), chain=[1, 0] if perm else None),
                             dict(name="Smp1", words=c02._words(9216, 2), mode=5), dict(name="Smp2", words=c02._words(700, 3), mode=2)]}
        img = rolandw.build(model)
        full = dict(c16._do(actions.determine_image_type(io.BufferedReader(io.BytesIO(img))), ("export", None))[1])
        if len(full) != 3:
            return 0
        cut = rolandw.DATA0 + cluster * rolandw.CL + (0, 1, 100, 4608, 9214, 9215)[off_i]
        try:
            got = dict(c16._do(actions.determine_image_type(io.BufferedReader(io.BytesIO(img[:cut]))), ("export", None))[1])
        except Exception:
            got = None
        extent = {"out/VolA/Perf0/Smp0.wav": 4, "out/VolA/Perf0/Smp1.wav": 6, "out/VolA/Perf0/Smp2.wav": 7}     # first cluster after the sample's data
        for path, endc in extent.items():
            if cut >= rolandw.DATA0 + endc * rolandw.CL:
                if got is None or got.get(path) != full[path]:
                    return 0
        if got is None:
            return 1
        for path, data in got.items():
            if path not in full:
                return 0
            try:
                a, b = _riff(data), _riff(full[path])
            except ValueError:
                return 0
            if not b[-1][1].startswith(a[-1][1]) or len(a[-1][1]) % 2 != 0:
                return 0
    return 1


def _riff(data):
    import struct
    if len(data) < 12 or data[:4] != b"RIFF" or data[8:12] != b"WAVE" or struct.unpack("<I", data[4:8])[0] != len(data) - 8:
        raise ValueError("bad RIFF header")
    pos, out = 12, []
    while pos < len(data):
        size = struct.unpack("<I", data[pos + 4:pos + 8])[0]
        if pos + 8 + size > len(data):
            raise ValueError("chunk overruns file")
        out.append((data[pos:pos + 4], data[pos + 8:pos + 8 + size]))
        pos += 8 + size
    return out


RUNS = c01.RUNS + ["smpl_extract.util.sector:SectorStream._read", "smpl_extract.transcoder:PipelineTranscoder.__next__",
                   "smpl_extract.transcoder:decode_frame", "smpl_extract.transcoder:pad_channels",
                   "smpl_extract.cdda.image:CompactDiskAudioImageAdapter.from_bin_cue", "smpl_extract.akai.image:AkaiImageParser._load_partitions"]

META = {
    "assumptions": ["truncation = the backing AbsFile simply ends at `cut` (reads are clipped, seeks beyond EOF succeed)",
                    "the directory entries and headers of the sample lie before the cut (the streams are built from parsed values); which directory "
                    "structures survive a cut is inside construct and out of the claim",
                    "RIFF length prefixes are written after buffering (construct.Prefixed), trusted; WAV well-formedness is C04"],
    "trusted": ["CPython 3.12", "z3 5.1", "CrossHair 0.0.110", "AbsFile/Spans", "NpShim (stereo)"],
    "out_of_claim": ["Roland loop modes other than forward (0) and reverse one-shot (5) under truncation", "files longer than 3 sectors"],
}


def obligations(tier, seed):
    q = tier == "quick"
    T = 170 if q else 1500
    obs = []

    def ob(name, func, pre, sym, bound, stubs):
        return dict(name=name, module="vf.props.c15", func=func, extra_pre=pre, timeout=T, runs=RUNS, sym=sym, bound=bound, stubs=stubs)
    for nsec in ((1, 2) if q else (1, 2, 3)):
        regions = [("cut-early", "cut <= (P + 1) * 8192")]
        half = (nsec - 1) * 8192 + 4096
        for a, apre in (("small", f"fsize <= {half}"), ("large", f"fsize > {half}")):
            bs = [("first-half", "2 * start < fsize - 140"), ("second-half", "2 * start >= fsize - 140")]
            if nsec >= 2:
                bs = [("q1", "4 * start < fsize - 140"), ("q2", "4 * start >= fsize - 140 and 2 * start < fsize - 140"), bs[1]]
            for b, bpre in bs:
                regions.append((f"cut-in-data/{a}/{b}", f"cut > (P + 1) * 8192 and {apre} and {bpre}"))
        for region, rpre in regions:
            obs.append(ob(f"C15.akai-mono/nsec={nsec}/{region}", "h_mono", [f"nsec == {nsec}", rpre],
                          "cut position, partition start, sector order, file size, markers, byte index", f"files of {nsec} sector(s); cut anywhere",
                          ["AbsFile/Spans", "StubSat"]))
    for region, rpre in (("r0", "w0 < 8192 and w1 < 8192"), ("r1", "w0 >= 8192 and w1 < 8192"), ("r2", "w0 < 8192 and w1 >= 8192"), ("r3", "w0 >= 8192 and w1 >= 8192")):
        obs.append(ob(f"C15.akai-stereo/{region}", "h_stereo", [rpre] + (["n0 <= 1100 and n1 <= 1100"] if q else []),
                      "cut position, both chains and windows, byte index", f"two samples <= {1100 if q else 2100} frames; cut anywhere", ["AbsFile/Spans", "NpShim"]))
    for mode in (0, 5):
        for region, rpre in (("lo", "start < 4608"), ("hi", "start >= 4608")):
            obs.append(ob(f"C15.roland/mode={mode}/{region}", "h_roland", [f"mode == {mode}", rpre], "cut position, both clusters, start and end point, byte index",
                          "2 clusters; forward and reversed window; cut anywhere", ["AbsFile/Spans", "NpShim"]))
    for last in (0, 1):
        obs.append(ob(f"C15.cdda/last={last}", "h_cdda", [f"last == {last}"], "cut position, track geometry, byte index", "tracks of 1..3 sectors, tail <= 5000", ["AbsFile/Spans"]))
    for order in (0, 1):
        obs.append(ob(f"C15.image/akai/order={order}", "h_image", [f"order == {order}"], "cut sector and offset inside it", "9 sectors x 8 offsets; volume of 3 samples incl. an L/R pair",
                      ["independent AKAI writer", "export to a temporary directory, read back"]))
    for perm in (0, 1):
        obs.append(ob(f"C15.image/roland/perm={perm}", "h_image_roland", [f"perm == {perm}"], "cut cluster and offset inside it", "7 clusters x 6 offsets; 3 samples (one stored in reverse cluster order, one reverse-played)",
                      ["independent S-770 writer", "export to a temporary directory, read back"]))
    for o in c13.obligations(tier, seed):
        if o["name"] == "C13.scan":
            obs.append(dict(o, name="C15.scan"))
    return obs
