"""Worker process: decide ONE obligation.

usage: python -m vf.xworker <spec.json>      (spec on argv[1] as a JSON string or a path)

spec = {"module": "vf.props.c08", "func": "h_offset", "extra_pre": ["..."], "twin": false,
        "timeout": 60, "mode": "solve" | "replay", "args": {...}, "setup": "name of module-level setup fn" }

solve : CrossHair (engine X) explores every path of the harness function under its pre-conditions; z3 decides
        each branch.  Prints one JSON line: verdict, message, counterexample args, paths (harness-body
        executions), solver queries, solver seconds.
replay: runs the same harness function concretely (no engine), with VF_REAL=1 so that stubs are swapped
        for their concrete counterparts; prints {"result": ..., "exception": ...}.
"""
import ast
import importlib
import inspect
import json
import linecache
import os
import re
import sys
import textwrap
import time
import traceback


def _derive(mod, fn, extra_pre, twin):
    """Re-compile the harness function from its current source with extra pre-conditions / the twin's
    unsatisfiable post-condition, inside the harness module's own namespace."""
    src = textwrap.dedent(inspect.getsource(fn))
    lines = src.split("\n")
    out = []
    done = False
    for ln in lines:
        if not done and re.match(r"\s*post:", ln):
            ind = re.match(r"\s*", ln).group(0)
            for p in extra_pre:
                out.append(f"{ind}pre: {p}")
            if twin:
                ln = f"{ind}post: _ != 1"
            done = True
        out.append(ln)
    if not done:
        raise RuntimeError("harness has no post: line")
    new_src = "\n".join(out) + "\n"
    fname = f"<vf-gen:{mod.__name__}.{fn.__name__}:{abs(hash(new_src))}>"
    linecache.cache[fname] = (len(new_src), None, new_src.splitlines(True), fname)
    code = compile(new_src, fname, "exec")
    ns = mod.__dict__
    saved = ns.get(fn.__name__)
    exec(code, ns)
    newfn = ns[fn.__name__]
    newfn.__module__ = mod.__name__
    return newfn, new_src


def _parse_call(message, fname):
    """extract the concrete arguments from CrossHair's '... when calling f(a, b=..)' message"""
    i = message.find("when calling " + fname + "(")
    if i < 0:
        return None
    s = message[i + len("when calling "):]
    # find the matching close paren by trying successive prefixes
    depth = 0
    end = None
    instr = None
    k = 0
    while k < len(s):
        ch = s[k]
        if instr:
            if ch == "\\":
                k += 1
            elif ch == instr:
                instr = None
        elif ch in "'\"":
            instr = ch
        elif ch in "([{":
            depth += 1
        elif ch in ")]}":
            depth -= 1
            if depth == 0:
                end = k
                break
        k += 1
    if end is None:
        return None
    try:
        call = ast.parse(s[: end + 1], mode="eval").body
        args = [ast.literal_eval(a) for a in call.args]
        kwargs = {kw.arg: ast.literal_eval(kw.value) for kw in call.keywords}
        return {"args": args, "kwargs": kwargs}
    except Exception:
        return {"raw": s[: end + 1]}


def solve(spec):
    import z3
    q = {"n": 0, "s": 0.0}
    _orig = z3.Solver.check

    def _check(self, *a):
        t0 = time.perf_counter()
        try:
            return _orig(self, *a)
        finally:
            q["n"] += 1
            q["s"] += time.perf_counter() - t0
    z3.Solver.check = _check

    from crosshair.core_and_libs import analyze_function, run_checkables
    from crosshair.options import AnalysisOptionSet
    if spec.get("stub_format", True):
        # environment stub: an f-string field holding a symbolic number (only used for exception / log
        # messages in the code analysed) is rendered as the placeholder "<n>" instead of forcing the solver
        # to enumerate concrete values (one path per value otherwise)
        from crosshair.libimpl import builtinslib as _bl
        from crosshair import opcode_intercept as _oi
        from crosshair.tracers import NoTracing

        def _mk(orig):
            def f(self, *a):
                with NoTracing():
                    sym = isinstance(self.value, _bl.SymbolicNumberAble)
                if sym:
                    self.formatted = "<n>"
                    return ""
                return orig(self, *a)
            return f
        for nm in ("__format__", "__str__", "__repr__"):
            setattr(_oi.FormatStashingValue, nm, _mk(getattr(_oi.FormatStashingValue, nm)))

    mod = importlib.import_module(spec["module"])
    if spec.get("setup"):
        getattr(mod, spec["setup"])(**spec.get("setup_args", {}))
    fn = getattr(mod, spec["func"])
    fn2, src = _derive(mod, fn, spec.get("extra_pre", []), spec.get("twin", False))
    t0 = time.time()
    opts = AnalysisOptionSet(
        per_condition_timeout=float(spec["timeout"]),
        per_path_timeout=float(spec.get("path_timeout", max(10.0, float(spec["timeout"]) / 4))),
        report_all=True,
    )
    msgs = list(run_checkables(analyze_function(fn2, opts)))
    wall = time.time() - t0
    out = {"messages": [], "paths": getattr(mod, "CNT", [0])[0], "queries": q["n"],
           "solver_s": round(q["s"], 3), "wall_s": round(wall, 2)}
    verdict = "inconclusive"
    for m in msgs:
        st = m.state.name
        out["messages"].append({"state": st, "message": m.message[:1500]})
        if st == "CONFIRMED":
            verdict = "discharged"
        elif st in ("POST_FAIL", "EXEC_ERR", "POST_ERR"):
            verdict = "refuted"
            out["cex"] = _parse_call(m.message, spec["func"])
            out["cex_message"] = m.message[:1500]
            out["cex_state"] = st
        elif st == "PRE_UNSAT":
            verdict = "pre_unsat"
        elif st in ("SYNTAX_ERR", "IMPORT_ERR"):
            verdict = "harness_error"
    if not msgs:
        verdict = "harness_error"
        out["messages"].append({"state": "NONE", "message": "CrossHair produced no result (no conditions found?)"})
    out["verdict"] = verdict
    return out


def replay(spec):
    os.environ["VF_REAL"] = "1"
    mod = importlib.import_module(spec["module"])
    if spec.get("setup"):
        getattr(mod, spec["setup"])(**spec.get("setup_args", {}))
    fn = getattr(mod, spec["func"])
    a = spec.get("args") or {}
    try:
        r = fn(*a.get("args", []), **a.get("kwargs", {}))
        return {"result": r, "exception": None}
    except Exception as e:  # the real code raised: that is a reproduction, report it - unless the harness itself is what broke
        tb = e.__traceback__
        last = None
        while tb is not None:
            last = tb.tb_frame.f_code.co_filename
            tb = tb.tb_next
        here = os.path.dirname(os.path.abspath(__file__))
        stub_misfit = isinstance(e, (ImportError, NameError)) or (isinstance(e, AttributeError) and str(e).startswith("module ")) \
            or (isinstance(e, AssertionError) and str(e).startswith("harness"))
        origin = "harness" if ((last or "").startswith(here) and stub_misfit) else "code"
        return {"result": None, "exception": f"{type(e).__name__}: {e}", "origin": origin,
                "traceback": traceback.format_exc()[-1500:]}


def main():
    arg = sys.argv[1]
    spec = json.loads(open(arg).read()) if os.path.exists(arg) else json.loads(arg)
    if spec.get("mode") == "replay":
        os.environ["VF_REAL"] = "1"
        out = replay(spec)
    else:
        out = solve(spec)
    sys.stdout.flush()
    print("\n@@VF@@" + json.dumps(out))


if __name__ == "__main__":
    main()
