"""symx set-up shared by C05/C06/C10/C16: the REAL methods of smpl_extract.structural.Image / Traversable, re-compiled from their current
source with len()/str.join routed through symx shims, and every compiled-pattern class attribute replaced by a SymPattern built from the
live pattern's own .pattern/.flags."""
import re
import z3
from vf import symx
from vf.symx import SymPattern, SymStr, ReShim, instrument, summarized, in_set, BW
from smpl_extract.structural import Image, Traversable

PATTERN_ATTRS = ("_INVALID_CHARS_REMOVE", "_INVALID_CHARS_REPLACE", "_SAFE_ENDING", "_INVALID_FILE_NAME", "_STEREO_FILENAME")
METHODS = ("make_safe_name", "make_export_name", "_add_count_to_name", "sanitize_names_general", "make_safe_names_routine",
           "make_export_names_routine", "combine_stereo_routine")


def sym_image(base=Image, summarize=("make_safe_name", "make_export_name", "_add_count_to_name"), extra_methods=()):
    """a subclass of the live Image whose methods are the real ones, instrumented; call after symx.reset()"""
    ov = {"re": ReShim()}

    class _I(base):
        def __init__(self):
            pass
    for k in PATTERN_ATTRS:
        v = getattr(base, k)
        setattr(_I, k, SymPattern(v.pattern, v.flags))
    for fn in METHODS + tuple(extra_methods):
        setattr(_I, fn, instrument(getattr(base, fn), ov))
    for fn in summarize:
        setattr(_I, fn, summarized(getattr(_I, fn)))
    return _I


def sym_str(name, cap, alphabet=None, minlen=0, maxcp=128):
    """a symbolic string of capacity `cap`; returns (SymStr, constraints)"""
    if minlen == cap:
        s = SymStr([z3.BitVec(f"{name}_{i}", BW) for i in range(cap)], cap)         # fixed length: keeps every position concrete
        cons = []
    else:
        s = SymStr([z3.BitVec(f"{name}_{i}", BW) for i in range(cap)], z3.Int(f"{name}_n"))
        cons = [s.n >= minlen, s.n <= cap]
    if alphabet is not None:
        cons += [in_set(c, alphabet) for c in s.c]
    else:
        cons += [z3.ULT(c, maxcp) for c in s.c]
    return s, cons


def validate_patterns(alphabet=" -.:LRa1'/\n(", maxlen=3):
    """translator validation (run once per check): the symbolic regex on concrete strings == CPython's re, for every string up to
    maxlen over an alphabet with a representative of each character class the patterns distinguish"""
    import itertools
    n = bad = 0
    pats = {k: getattr(Image, k) for k in PATTERN_ATTRS}
    sps = {k: SymPattern(v.pattern, v.flags) for k, v in pats.items()}

    def conc(ss):
        ln = z3.simplify(ss.n).as_long()
        return "".join(chr(z3.simplify(c).as_long()) for c in ss.c[:ln])
    for L in range(maxlen + 1):
        for tup in itertools.product(alphabet, repeat=L):
            s = "".join(tup)
            ss = SymStr([ord(ch) for ch in s] + [0] * (max(L, 1) - L), L)
            for name, sp in sps.items():
                rm = pats[name].match(s)
                sm = sp.match(ss)
                ok = z3.is_true(z3.simplify(sm.ok))
                n += 1
                if ok != bool(rm):
                    bad += 1
                elif rm:
                    for g in range(1, (rm.re.groups or 0) + 1):
                        if conc(sm.group(g)) != rm.group(g):
                            bad += 1
                rs = pats[name].search(s)
                ssr = sp.search(ss)
                n += 1
                if z3.is_true(z3.simplify(ssr.ok)) != bool(rs):
                    bad += 1
                elif rs:
                    for g in range(1, (rs.re.groups or 0) + 1):
                        if conc(ssr.group(g)) != (rs.group(g) or ""):
                            bad += 1
                if name in ("_INVALID_CHARS_REMOVE", "_INVALID_CHARS_REPLACE", "_INVALID_FILE_NAME"):
                    for repl in ("", " "):
                        n += 1
                        if pats[name].sub(repl, s) != conc(sp.sub(repl, ss)):
                            bad += 1
    return n, bad
