"""Independent Roland S-770 disk image writer (logical model -> bytes), written from the S-770 disk layout (area table, 32-byte
directory entries, parameter records; cf. the repo's declarative ksy/roland/s770.ksy), not from the parser.

model = {
  "volumes":      [(name, [performance indices])],
  "performances": [(name, [patch indices])],
  "patches":      [(name, [partial indices])],
  "partials":     [(name, [sample indices (<= 4)])],
  "samples":      [dict(name=, words=bytes, chain=[clusters] or None, cluster_top=0, mode=0..6, start=, sustain_start=, sustain_end=,
                        release_start=, release_end=, freq_code=0..5, fine=[5 bytes], tunes=(enable, sustain, release),
                        sample_mode=0|1, key=midi byte, share_with=index of an earlier sample whose chain this one lives in)],
  "fat_version":  1 | 2,
}
"""
import struct

CL = 0x2400
FAT_OFF, FAT_N = 0x80800, 0x10000
DIR = {"volume": (0xa0800, 0x40), "performance": (0xa1800, 0x41), "patch": (0xa5800, 0x42), "partial": (0xad800, 0x43), "sample": (0xcd800, 0x44)}
PAR = {"volume": (0x10d800, 0x100), "performance": (0x115800, 0x200), "patch": (0x155800, 0x200), "partial": (0x1d5800, 0x80), "sample": (0x255800, 0x30)}
DATA0 = 0x2b1000        # byte address of (virtual) cluster 0; the first real cluster is 2


def _name(s, n=16):
    return s.ljust(n)[:n].encode("ascii")


def _dirent(name, ftype, fat_entry=0, nclus=0, fwd=0, bwd=0, v2=False):
    off = 0x8000 if v2 else 0
    return _name(name) + bytes([ftype, 0]) + struct.pack("<HHHIHH", (fwd + off) & 0xFFFF, (bwd + off) & 0xFFFF, 0, 0, fat_entry, nclus)


def build(model):
    samples = model["samples"]
    # ---- allocate clusters
    nxt = 2
    fat = [0] * FAT_N
    fat[0], fat[1] = 0xfffa, 0
    ver = model.get("fat_version", 1)
    fat[FAT_N - 2] = 0xffff if ver == 1 else 0xfffe
    fat[FAT_N - 1] = 0xffff
    placed = []
    for s in samples:
        if "share_with" in s:                      # a second sample inside another sample's chain (same FAT head, its own cluster_top)
            placed.append(placed[s["share_with"]])
            continue
        nbytes = len(s["words"])
        top = s.get("cluster_top", 0)
        k = max(1, -(-nbytes // CL)) + top
        chain = s.get("chain")
        if chain is None:
            chain = list(range(nxt, nxt + k))
        else:
            chain = [nxt + c for c in chain]
        nxt += k
        for i, c in enumerate(chain):
            fat[c] = chain[i + 1] if i + 1 < len(chain) else 0xfff8
        placed.append(chain)
    size = DATA0 + (nxt + 1) * CL
    img = bytearray(size)
    # ---- id area
    img[0:4] = struct.pack("<I", 1)
    img[4:14] = _name("S770 MR25A", 10)
    img[16:31] = _name("", 15)
    img[32:63] = _name("S-770 Hard Disk  Ver. 1.00", 31)
    img[64:95] = _name("    Copyright   Roland", 31)
    img[256:272] = _name(model.get("disk_name", "VERIF DISK"))
    img[272:276] = struct.pack("<I", 80)
    img[276:286] = struct.pack("<HHHHH", len(model["volumes"]), len(model["performances"]), len(model["patches"]), len(model["partials"]), len(samples))
    # ---- fat
    img[FAT_OFF:FAT_OFF + 2 * FAT_N] = struct.pack("<%dH" % FAT_N, *fat)
    v2 = ver == 2

    def put_dir(kind, i, name, fat_entry=0, nclus=0):
        base, t = DIR[kind]
        img[base + 0x20 * i:base + 0x20 * (i + 1)] = _dirent(name, t, fat_entry, nclus, v2=v2)

    def par_off(kind, i):
        base, sz = PAR[kind]
        return base + sz * i, sz
    for i, (name, perfs) in enumerate(model["volumes"]):
        put_dir("volume", i, name)
        o, sz = par_off("volume", i)
        rec = bytearray(sz)
        rec[0:16] = _name(name)
        ptrs = list(perfs) + [-1] * (64 - len(perfs))
        rec[32:160] = struct.pack("<64h", *ptrs)
        img[o:o + sz] = rec
    for i, (name, patches) in enumerate(model["performances"]):
        put_dir("performance", i, name)
        o, sz = par_off("performance", i)
        rec = bytearray(sz)
        rec[0:16] = _name(name)
        pl = list(patches) + [-1] * (32 - len(patches))
        rec[256:320] = struct.pack("<32h", *pl)
        img[o:o + sz] = rec
    for i, (name, partials) in enumerate(model["patches"]):
        put_dir("patch", i, name)
        o, sz = par_off("patch", i)
        rec = bytearray(sz)
        rec[0:16] = _name(name)
        pl = list(partials) + [-1] * (88 - len(partials))
        rec[256:432] = struct.pack("<88h", *pl)
        img[o:o + sz] = rec
    for i, (name, smps) in enumerate(model["partials"]):
        put_dir("partial", i, name)
        o, sz = par_off("partial", i)
        rec = bytearray(sz)
        rec[0:16] = _name(name)
        refs = list(smps) + [-1] * (4 - len(smps))
        for slot, off in zip(refs, (16, 32, 48, 64)):
            rec[off:off + 2] = struct.pack("<h", slot)
        img[o:o + sz] = rec
    for i, s in enumerate(samples):
        chain = placed[i]
        put_dir("sample", i, s["name"], chain[0], len(chain))
        o, sz = par_off("sample", i)
        rec = bytearray(sz)
        rec[0:16] = _name(s.get("param_name", s["name"]))
        pts = [s.get("start", 0), s.get("sustain_start", 0), s.get("sustain_end", len(s["words"]) // 2 - 1),
               s.get("release_start", 0), s.get("release_end", len(s["words"]) // 2 - 1)]
        for j, p in enumerate(pts):
            fine = s["fine"][j] if "fine" in s else 17 * (j + 1) % 256
            rec[16 + 4 * j:20 + 4 * j] = struct.pack("<I", ((p << 8) | fine) & 0xFFFFFFFF)
        rec[36] = s.get("mode", 0)
        rec[37], rec[38], rec[39] = s.get("tunes", (1, 3, 5))
        top = s.get("cluster_top", 0)
        rec[40:44] = struct.pack("<HH", top, len(chain))
        rec[44] = ((s.get("sample_mode", 0) & 0xF) << 4) | (s.get("freq_code", 0) & 0xF)
        rec[45] = s.get("key", 60)
        img[o:o + sz] = rec
        data = s["words"]
        if "share_with" in s:
            continue                               # its audio is what the owner of the chain stored in clusters [top:]
        for j, c in enumerate(chain[top:]):
            piece = data[j * CL:(j + 1) * CL]
            img[DATA0 + c * CL:DATA0 + c * CL + len(piece)] = piece
    return bytes(img)
