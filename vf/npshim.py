"""`NpShim`: index-map stand-in for numpy (stub, DESIGN.md 1.2).

The pipelines analysed through it (transcoder.py, StreamReversed._read, FirFilter) never branch on a sample
value, so an array is represented exactly by its shape (ints, possibly symbolic) and a map
`(index tuple, byte-in-element) -> tag of the source byte`.  Tags are whatever the abstract byte strings
carry (backing-file addresses for `Spans`, `(stream id, offset)` for `AStream`); ZERO marks padding.
Errors numpy would raise on shape mismatches are raised here too (ValueError).
"""
import numpy as _np

ZERO = -1


class ABytes:
    """abstract immutable byte string: length + k -> tag"""

    def __init__(self, n, at):
        self.n, self._at = n, at

    def __len__(self):
        return self.n

    def at(self, k):
        return self._at(k)

    addr = at

    def __getitem__(self, sl):
        if not (isinstance(sl, slice) and sl.start is None and sl.step is None):
            raise TypeError("ABytes: only prefix slices are modelled")
        m = sl.stop if sl.stop < self.n else self.n
        if m < 0:
            m = 0
        return ABytes(m, self._at)

    def __add__(self, o):
        a, n = self, self.n
        return ABytes(n + len(o), lambda k: a.at(k) if k < n else o.at(k - n))


class AStream:
    """abstract source stream `sid` of `size` bytes whose byte at offset o is tagged (sid, o)"""

    def __init__(self, sid, size):
        self.sid, self.size, self.pos = sid, size, 0
        self.reads = 0

    def seek(self, off, whence=0):
        if whence == 0:
            self.pos = off
        elif whence == 1:
            self.pos = self.pos + off
        else:
            self.pos = self.size + off
        return self.pos

    def tell(self):
        return self.pos

    def read(self, n):
        avail = self.size - self.pos
        if avail < 0:
            avail = 0
        if n > avail:
            n = avail
        p0, sid = self.pos, self.sid
        self.pos = self.pos + n
        self.reads += 1
        return ABytes(n, lambda k: (sid, p0 + k))


def _tagfn(buf):
    return buf.at if hasattr(buf, "at") else buf.addr


class AArr:
    def __init__(self, shape, w, at):
        self.shape, self.w, self._at = tuple(shape), w, at

    @property
    def ndim(self):
        return len(self.shape)

    def at(self, idx, b):
        return self._at(idx, b)

    def __len__(self):
        return self.shape[0]

    def __iter__(self):
        if self.ndim != 2:
            raise TypeError("AArr: iteration modelled for 2-D only")
        rows = self.shape[0]
        if not isinstance(rows, int):
            rows = int(rows)        # realises; only ever a concrete channel count in the code analysed
        cols, w, at = self.shape[1], self.w, self._at
        return iter([AArr((cols,), w, (lambda r: (lambda idx, b: at((r, idx[0]), b)))(r)) for r in range(rows)])

    # -- elementwise / dtype
    def byteswap(self):
        w, at = self.w, self._at
        return AArr(self.shape, w, lambda idx, b: at(idx, w - 1 - b))

    def astype(self, dt):
        if _np.dtype(dt).itemsize != self.w:
            raise NotImplementedError("NpShim: width-changing astype is not modelled")
        return self

    # -- shape
    @property
    def T(self):
        if self.ndim == 1:
            return self
        at = self._at
        return AArr((self.shape[1], self.shape[0]), self.w, lambda idx, b: at((idx[1], idx[0]), b))

    def reshape(self, shape, order="C"):
        return reshape(self, shape, order)

    def flatten(self, order="C"):
        if self.ndim == 1:
            return self
        return reshape(self, (-1,), order)

    def tobytes(self):
        if self.ndim != 1:
            raise NotImplementedError
        w, at = self.w, self._at
        return ABytes(self.shape[0] * w, lambda k: at((k // w,), k % w))

    def __getitem__(self, sl):
        if self.ndim != 1 or not isinstance(sl, slice):
            raise NotImplementedError("AArr: only 1-D slices")
        n = self.shape[0]
        a, b = sl.start, sl.stop
        a = 0 if a is None else (a + n if a < 0 else a)
        b = n if b is None else (b + n if b < 0 else b)
        a = min(max(a, 0), n)
        b = min(max(b, 0), n)
        at = self._at
        if sl.step is None or sl.step == 1:
            m = b - a if b > a else 0
            return AArr((m,), self.w, lambda idx, bb: at((idx[0] + a,), bb))
        st = sl.step
        if not isinstance(st, int) or st <= 0:
            raise NotImplementedError("AArr: only positive concrete steps")
        m = (b - a + st - 1) // st if b > a else 0          # strided view: element j is element a + j * step
        return AArr((m,), self.w, lambda idx, bb: at((idx[0] * st + a,), bb))


def reshape(arr, shape, order="C"):
    shape = list(shape)
    at, w = arr._at, arr.w
    if arr.ndim == 1 and len(shape) == 2:
        if order != "C":
            raise NotImplementedError
        n = arr.shape[0]
        r, c = shape
        if c == -1:
            raise NotImplementedError
        if r == -1:
            if n % c != 0:
                raise ValueError("cannot reshape array")
            r = n // c
        elif r * c != n:
            raise ValueError("cannot reshape array")
        return AArr((r, c), w, lambda idx, b: at((idx[0] * c + idx[1],), b))
    if arr.ndim == 2 and len(shape) == 1:
        R, C = arr.shape
        n = R * C
        if shape[0] != -1 and shape[0] != n:
            raise ValueError("cannot reshape array")
        if order == "F":
            return AArr((n,), w, lambda idx, b: at((idx[0] % R, idx[0] // R), b))
        if order == "C":
            return AArr((n,), w, lambda idx, b: at((idx[0] // C, idx[0] % C), b))
    if arr.ndim == 1 and len(shape) == 1:
        return arr
    raise NotImplementedError("NpShim.reshape %r -> %r" % (arr.shape, shape))


class NpShim:
    dtype = _np.dtype
    ndarray = _np.ndarray
    int8, int16, int32, float64 = _np.int8, _np.int16, _np.int32, _np.float64

    @staticmethod
    def frombuffer(buf, dtype):
        w = _np.dtype(dtype).itemsize
        n = len(buf)
        if n % w != 0:
            raise ValueError("buffer size must be a multiple of element size")
        if isinstance(buf, (bytes, bytearray)):
            if len(buf) != 0:
                raise TypeError("NpShim: concrete non-empty bytes in symbolic mode")
            return AArr((0,), w, lambda idx, b: ZERO)
        f = _tagfn(buf)
        return AArr((n // w,), w, lambda idx, b: f(idx[0] * w + b))

    @staticmethod
    def zeros(n, dtype=None):
        return AArr((n,), _np.dtype(dtype).itemsize, lambda idx, b: ZERO)

    @staticmethod
    def pad(ch, widths, mode=None, end_values=None):
        if widths[0] != 0:
            raise NotImplementedError
        n0, at = ch.shape[0], ch._at
        return AArr((n0 + widths[1],), ch.w, lambda idx, b: at(idx, b) if idx[0] < n0 else ZERO)

    @staticmethod
    def vstack(chs):
        chs = list(chs)
        n = chs[0].shape[0]
        for c in chs:
            if c.shape[0] != n:
                raise ValueError("all the input array dimensions except for the concatenation axis must match")
        w = chs[0].w
        return AArr((len(chs), n), w, lambda idx, b: chs[idx[0]].at((idx[1],), b))

    reshape = staticmethod(reshape)

    @staticmethod
    def flip(arr, axis):
        if axis != 0:
            raise NotImplementedError
        at, n = arr._at, arr.shape[0]
        return AArr(arr.shape, arr.w, lambda idx, b: at((n - 1 - idx[0],) + tuple(idx[1:]), b))


def byte_is_tag(r, k, tag):
    """compare byte k of an (abstract or real) result with an expected tag; real mode handled by caller"""
    return _tagfn(r)(k) == tag
