"""Reference model of a read-only file view and a driver that runs an operation history on a real stream
object against it (C08/C09/C11).  Written from the property statement, not from the code under test."""
from io import SEEK_SET, SEEK_CUR, SEEK_END
from vf.absfile import byte_is, indices, REAL

SEEK, TELL, READ = "seek", "tell", "read"
# operation kinds (ints so that CrossHair can keep them symbolic or pin them by a pre-condition)
K_SEEK_SET, K_SEEK_CUR, K_SEEK_END, K_READ, K_TELL = 0, 1, 2, 3, 4
WHENCE = (SEEK_SET, SEEK_CUR, SEEK_END)


def step(stream, length, addr_of, pos, kind, a, k, check_bytes=True):
    """apply one operation to `stream`; return the model's new position, or -1 on a deviation.
    check_bytes=False (symbolic mode only): the read's length and cursor are checked, its content is not."""
    if kind <= K_SEEK_END:
        base = 0
        if kind == K_SEEK_CUR:
            base = pos
        elif kind == K_SEEK_END:
            base = length
        want = base + a
        if want < 0:
            want = 0
        if want > length:
            want = length
        got = stream.seek(a, WHENCE[kind])
        if got != want:
            return -1
        return want
    if kind == K_READ:
        r = stream.read(a)
        n = length - pos
        if a < n:
            n = a
        if len(r) != n:
            return -1
        if check_bytes or REAL:
            for kk in indices(k, n):
                if not byte_is(r, kk, addr_of(pos + kk)):
                    return -1
        return pos + n
    if stream.tell() != pos:
        return -1
    return pos


def run(stream, length, addr_of, ops, k, pos=0):
    for (kind, a) in ops:
        pos = step(stream, length, addr_of, pos, kind, a, k)
        if pos < 0:
            return 0
    if stream.tell() != pos:
        return 0
    return 1
