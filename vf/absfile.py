"""Abstract backing file (stub `AbsFile`/`Spans`, DESIGN.md 1.2) and its concrete twin used on replay.

Symbolic mode: the byte at address a of the backing file "is" a; a read returns a `Spans`
(list of (start, length)), and a harness checks `addr(k)` for ONE symbolic k which stands for every byte.
Real mode (VF_REAL=1, used when a counterexample or witness is replayed outside the solver): the backing
file is an `io.BytesIO` over deterministic pseudo-random bytes and reads return real `bytes`; `byte_is`
then compares the actual byte with the content at the expected address, and `indices` makes the harness
loop over every k instead of one.
"""
import io
import os
from io import SEEK_SET, SEEK_CUR, SEEK_END

REAL = os.environ.get("VF_REAL") == "1"


class Spans:
    def __init__(self, parts=()):
        self.parts = list(parts)

    def __len__(self):
        n = 0
        for (_s, l) in self.parts:
            n = n + l
        return n

    def __add__(self, other):
        return Spans(self.parts + other.parts)

    def __iadd__(self, other):
        self.parts = self.parts + other.parts
        return self

    def __radd__(self, other):
        # `bytes() + Spans` (StreamWrapper.readall starts from an empty bytes object)
        if isinstance(other, (bytes, bytearray)) and len(other) == 0:
            return Spans(self.parts)
        return NotImplemented

    def __getitem__(self, sl):
        # slices buffer[a:b] (no step) with 0 <= a; clipping as for bytes
        if not (isinstance(sl, slice) and sl.step is None):
            raise TypeError("Spans: only plain slices are modelled")
        total = len(self)
        a = 0 if sl.start is None else sl.start
        b = total if sl.stop is None else sl.stop
        if a < 0:
            a = a + total
            if a < 0:
                a = 0
        if b < 0:
            b = b + total
            if b < 0:
                b = 0
        if b > total:
            b = total
        out = []
        pos = 0
        for (s, l) in self.parts:
            lo = a - pos if a > pos else 0
            hi = b - pos if b - pos < l else l
            if hi > lo:
                out.append((s + lo, hi - lo))
            pos = pos + l
        return Spans(out)

    def at(self, k):
        return self.addr(k)

    def addr(self, k):
        for (s, l) in self.parts:
            if k < l:
                return s + k
            k = k - l
        raise IndexError("Spans.addr out of range")


class AbsFile:
    """POSIX-like read-only file of `size` bytes: seek absolute/relative/end, read clipped at EOF,
    no error on seeking past EOF, ValueError on a negative absolute position (as io.BytesIO / OS files)."""

    def __init__(self, size):
        self.size = size
        self.pos = 0
        self.nreads = 0

    def tell(self):
        return self.pos

    def seek(self, off, whence=SEEK_SET):
        if whence == SEEK_SET:
            p = off
        elif whence == SEEK_CUR:
            p = self.pos + off
        else:
            p = self.size + off
        if p < 0:
            raise ValueError("negative seek position")
        self.pos = p
        return p

    def read(self, n=-1):
        avail = self.size - self.pos
        if avail < 0:
            avail = 0
        if n is None or n < 0 or n > avail:
            n = avail
        r = Spans([(self.pos, n)]) if n > 0 else Spans()
        self.pos = self.pos + n
        self.nreads += 1
        return r


def content(a):
    """deterministic content byte of the real replay file at address a (a 32-bit mix: equal bytes at related addresses -
    a + k*2^n - must not be systematically equal, or a read from the wrong sector would go unnoticed)"""
    x = (a * 2654435761) & 0xFFFFFFFF
    x ^= x >> 15
    x = (x * 2246822519) & 0xFFFFFFFF
    x ^= x >> 13
    x = (x * 3266489917) & 0xFFFFFFFF
    x ^= x >> 16
    return x & 0xFF


def _content_bytes(size):
    try:
        import numpy as np
        x = (np.arange(size, dtype=np.uint64) * np.uint64(2654435761)) & np.uint64(0xFFFFFFFF)
        x ^= x >> np.uint64(15)
        x = (x * np.uint64(2246822519)) & np.uint64(0xFFFFFFFF)
        x ^= x >> np.uint64(13)
        x = (x * np.uint64(3266489917)) & np.uint64(0xFFFFFFFF)
        x ^= x >> np.uint64(16)
        return (x & np.uint64(0xFF)).astype(np.uint8).tobytes()
    except ImportError:
        return bytes(content(a) for a in range(size))


class RealFile(io.BytesIO):
    def __init__(self, size):
        super().__init__(_content_bytes(size))
        self.size = size


def mkfile(size):
    return RealFile(int(size)) if REAL else AbsFile(size)


def empty():
    return b"" if REAL else Spans()


def byte_is(r, k, a):
    """does byte k of read result r come from backing address a?"""
    if hasattr(r, "addr"):
        return r.addr(k) == a
    return r[k] == content(a)


def indices(k, n):
    """symbolic mode: the one symbolic index (if in range); real mode: every index"""
    if REAL:
        return range(n)
    return [k] if 0 <= k < n else []
